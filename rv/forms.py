"""Argument-representation twins ("the same value in another form is the same argument").

Every property quantifies over *values* (an order M in {2..256}, a voltage Vpi > 0, a count of samples ...), not over the Python
type that carries the value.  This layer sits on top of a module's monitors: with probability 1/PERIOD a call made by a
workload is repeated — under the numpy RNG state the first call started from — with ONE scalar argument re-represented
(python int <-> numpy int64/int32, python float <-> numpy float64, integer-valued float -> python int) or with every
argument passed by keyword to the undecorated function, and the two results are compared (values, rtol 1e-9).

A representation may legitimately be *rejected* by the library's own type validation (e.g. DAC(T=np.int64(8)) raises
TypeError on the pinned tree).  `forms_baseline.json` (committed; recorded on the repaired tree by tools/forms_baseline.py)
lists, per function.parameter:from->to, the representations that are rejected there and with which exception.  Verdicts:
  * twin returns        -> must equal the canonical result                    (monitor forms.equal)
  * twin raises         -> fine if the baseline lists that rejection; a representation the baseline lists as accepted
                           (or the all-keyword call) that now raises is only counted (coverage bin), never a verdict: acceptance can
                           depend on the other arguments
  * key unknown to the baseline -> counted in coverage bin forms.unknown, no verdict.
A third kind of twin needs no baseline: the *identical* call made a second time (same argument objects, same RNG state) must
return the same values (monitor forms.repeat) — state left behind by the first call, or an argument it modified, shows here.
A fourth repeats the call under different numpy print options and with deprecation-class warnings promoted to errors (monitor
forms.ambient), and after EVERY call through the layer the process-global ambient state (numpy error state and print options,
warnings filters other than the RuntimeWarning filter utils.db installs on the pinned tree, cwd, environment) must be as
before (monitor ambient.unchanged): a result may depend on its arguments, gv and the numpy RNG only. A fifth repeats it with another slot count gv.N in force (monitor
forms.gvN) and with user-defined gv attributes named like the function's own parameters: N only sizes the convenience axes
gv.t / gv.w / gv.dw, which no library function reads, and an omitted argument means its documented default; every closed form of
the properties is stated without either. A sixth is a mistaken call — one scalar argument replaced by an invalid value: whatever it
raises, the other arguments, gv, the module-level variables of opticomlib and the ambient state must be as before (monitor
exception.safety, also evaluated after every documented rejection exercised through Ctx.raises). And after every call through
the layer the arrays of the result must not share memory with an argument buffer or with gv.t / gv.w, nor may the result be one of
the argument objects (monitor fresh.result). A seventh twin hands over the same values in another memory layout (Fortran order
for 2-D arrays, strided views for 1-D ones, also inside signal objects; monitor forms.layout), and the identical-second-call twin runs on differently
*poisoned* free memory (core.poison_small_blocks), so a result that reads memory it never wrote differs from its twin.
The canonical call is always the workload's own call, through the property's monitors; the twin goes through them too
(all-keyword twins go to the undecorated function, because the monitors' wrappers call it positionally).
"""
import inspect
import json
import os
import zlib

import numpy as np

from . import core

PERIOD = 6
BASELINE = os.path.join(core.ROOT, "forms_baseline.json")
_depth = [0]
_record = {}
_baseline = None
_rngs = {}


def baseline():
    global _baseline
    if _baseline is None:
        try:
            _baseline = json.load(open(BASELINE))
        except (OSError, ValueError):
            _baseline = {}
    return _baseline


def alt_forms(v):
    """[(label, value)] equivalent representations of a scalar argument"""
    if isinstance(v, (bool, np.bool_)) or v is None:
        return []
    if isinstance(v, int):
        out = [("int->np.int64", np.int64(v))] if abs(v) < 2 ** 62 else []
        if abs(v) < 2 ** 31:
            out.append(("int->np.int32", np.int32(v)))
        return out
    if isinstance(v, float):
        if not np.isfinite(v):
            return []
        out = [("float->np.float64", np.float64(v))]
        if v.is_integer() and abs(v) < 2 ** 53:
            out.append(("float->int", int(v)))
        return out
    if isinstance(v, np.floating) and v.dtype == np.float64:
        return [("np.float64->float", float(v))]
    if isinstance(v, np.integer):
        return [("np.int->int", int(v))]
    return []


def flat(r, depth=0):
    if r is None:
        return [None]
    if isinstance(r, (str, bytes)):
        return [r]
    if isinstance(r, (bool, int, float, complex, np.generic, np.ndarray)):
        return [np.asarray(r)]
    if isinstance(r, (tuple, list)):
        out = []
        for x in r:
            out += flat(x, depth + 1)
        return out
    if isinstance(r, dict):
        out = []
        for k in sorted(r):
            out += flat(r[k], depth + 1)
        return out
    if hasattr(r, "signal") and hasattr(r, "noise"):
        return [np.asarray(r.signal), None if r.noise is None else np.asarray(r.noise)]
    if hasattr(r, "data") and type(r).__name__ == "binary_sequence":
        return [np.asarray(r.data)]
    if type(r).__name__ == "eye" and depth < 2:
        out = []
        for k in sorted(vars(r)):
            if k != "execution_time":
                out += flat(getattr(r, k), depth + 1)
        return out
    return [type(r).__name__]


def same(a, b, rtol=1e-9):
    fa, fb = flat(a), flat(b)
    if len(fa) != len(fb):
        return False, f"result structure differs ({len(fa)} vs {len(fb)} parts)"
    for k, (x, y) in enumerate(zip(fa, fb)):
        if x is None or y is None or isinstance(x, (str, bytes)) or isinstance(y, (str, bytes)):
            if not (type(x) is type(y) and x == y):
                return False, f"part {k}: {x!r} vs {y!r}"[:200]
            continue
        if x.shape != y.shape:
            return False, f"part {k}: shape {x.shape} vs {y.shape}"
        if x.dtype == object or y.dtype == object:
            continue
        if x.size == 0:
            continue
        nx, ny = np.isnan(x) if x.dtype.kind in "fc" else np.zeros(x.shape, bool), np.isnan(y) if y.dtype.kind in "fc" else np.zeros(y.shape, bool)
        if not np.array_equal(nx, ny):
            return False, f"part {k}: NaN pattern differs"
        m = ~nx
        if not m.any():
            continue
        xv, yv = x[m].astype(complex), y[m].astype(complex)
        fin = np.isfinite(xv) & np.isfinite(yv)
        if not np.array_equal(np.isfinite(xv), np.isfinite(yv)) or not np.array_equal(xv[~fin], yv[~fin]):
            return False, f"part {k}: infinities differ"
        if fin.any():
            sc = max(float(np.max(np.abs(yv[fin]))), 1e-300)
            err = float(np.max(np.abs(xv[fin] - yv[fin])))
            if err > rtol * sc:
                return False, f"part {k}: max deviation {err:.3g} on a scale of {sc:.3g}"
    return True, ""


def _rng(ctx):
    key = (ctx.cur.get("workload"), ctx.cur.get("index"))
    if _rngs.get("key") != key:
        _rngs["key"] = key
        _rngs["rng"] = np.random.Generator(np.random.PCG64([ctx.seed, zlib.crc32(ctx.prop.encode()), zlib.crc32(b"forms"), zlib.crc32(str(key[0]).encode()), int(key[1] or 0)]))
    return _rngs["rng"]


def _real(fn):
    while getattr(fn, "__rv_orig__", None) is not None:
        fn = fn.__rv_orig__
    return fn


def _arrays_of(v, depth=0):
    if isinstance(v, np.ndarray):
        return [v]
    if hasattr(v, "signal") and hasattr(v, "noise"):
        return [x for x in (v.signal, v.noise) if isinstance(x, np.ndarray)]
    if hasattr(v, "data") and isinstance(getattr(v, "data", None), np.ndarray):
        return [v.data]
    if isinstance(v, (tuple, list)) and depth < 2 and len(v) <= 16:
        out = []
        for x in v:
            out += _arrays_of(x, depth + 1)
        return out
    return []


def _fresh(ctx, qual, r, a, k):
    """outputs never alias input buffers (nor the axes held by gv): what a call returns may be modified by the caller without
    changing its arguments or a later result"""
    outs = _arrays_of(r)
    if not outs:
        return
    ins = []
    for v in list(a) + list(k.values()):
        ins += _arrays_of(v)
    try:
        import opticomlib.typing as _ty
        ins += [x for x in (getattr(_ty.gv, "t", None), getattr(_ty.gv, "w", None)) if isinstance(x, np.ndarray)]
    except Exception:
        pass
    bad = any(o.size and i.size and np.may_share_memory(o, i) and np.shares_memory(o, i) for o in outs for i in ins)
    same = any(r is v for v in list(a) + list(k.values()))
    with core.monitor_scope():
        ctx.check("fresh.result", not bad and not same, f"{qual}: " + ("the call returned one of its argument objects" if same else "an array of the result shares memory with an argument buffer (or with gv.t / gv.w)"))


def _relayout(v, depth=0):
    """the same values in another memory layout: Fortran order for 2-D arrays, a strided view for 1-D ones (what x[::2], a
    transposed capture or a column of a table are); signal-like objects get relaid copies of their arrays. Returns (value, changed)."""
    import copy
    if isinstance(v, np.ndarray) and v.size > 1:
        if v.ndim == 2 and min(v.shape) > 1:
            return np.asfortranarray(v), True
        if v.ndim == 1:
            base = np.empty(2 * v.size, dtype=v.dtype)
            base[::2] = v
            base[1::2] = v[::-1]
            return base[::2], True
        return v, False
    if hasattr(v, "signal") and hasattr(v, "noise") and isinstance(getattr(v, "signal", None), np.ndarray):
        w = copy.copy(v)
        s2, c1 = _relayout(v.signal, depth + 1)
        n2, c2 = (_relayout(v.noise, depth + 1) if isinstance(v.noise, np.ndarray) else (v.noise, False))
        if c1 or c2:
            w.signal, w.noise = s2, n2
            return w, True
        return v, False
    if hasattr(v, "data") and type(v).__name__ == "binary_sequence" and isinstance(getattr(v, "data", None), np.ndarray):
        d2, c = _relayout(v.data, depth + 1)
        if c:
            w = copy.copy(v)
            w.data = d2
            return w, True
    return v, False


def _ambient(ctx, qual, before):
    """every call made by a workload: the function must leave the process-global ambient state as it found it"""
    d = core.ambient_diff(before, core.ambient_snapshot(full="environ" in before))
    with core.monitor_scope():
        ctx.check("ambient.unchanged", d is None, f"{qual} changed process-global state and did not restore it: {d}")


def make_layer(ctx, qual, period=PERIOD):
    def layer(orig):
        real = _real(orig)
        try:
            sig = inspect.signature(orig)
        except (TypeError, ValueError):
            sig = None
        try:
            real_names = set(inspect.signature(real).parameters)
            real_varkw = any(p.kind == p.VAR_KEYWORD for p in inspect.signature(real).parameters.values())
        except (TypeError, ValueError):
            real_names, real_varkw = set(), True

        def wrapper(*a, **k):
            if core.in_monitor() or _depth[0] > 0 or sig is None or core.in_twin():
                return orig(*a, **k)
            rng = _rng(ctx)
            twin = rng.integers(period) == 0
            amb0 = core.ambient_snapshot(full=bool(twin))
            if not twin:
                _depth[0] += 1
                try:
                    r = orig(*a, **k)
                finally:
                    _depth[0] -= 1
                _ambient(ctx, qual, amb0)
                _fresh(ctx, qual, r, a, k)
                return r
            st0 = np.random.get_state()
            _depth[0] += 1
            try:
                r = orig(*a, **k)
            finally:
                _depth[0] -= 1
            _ambient(ctx, qual, amb0)
            st1 = np.random.get_state()
            try:
                bound = sig.bind(*a, **k)
            except TypeError:
                return r
            # candidates: one re-represented scalar, or the all-keyword call
            cands = []
            for name, v in bound.arguments.items():
                p = sig.parameters[name]
                if p.kind == p.VAR_KEYWORD:
                    for kk, vv in v.items():
                        cands += [(f"**{kk}", lab, ("kw", kk, nv)) for lab, nv in alt_forms(vv)]
                elif p.kind != p.VAR_POSITIONAL:
                    cands += [(name, lab, ("arg", name, nv)) for lab, nv in alt_forms(v)]
            flatkw = {}
            kw_ok = True
            for name, v in bound.arguments.items():
                p = sig.parameters[name]
                if p.kind == p.VAR_KEYWORD:
                    flatkw.update(v)
                elif p.kind in (p.VAR_POSITIONAL, p.POSITIONAL_ONLY):
                    kw_ok = False
                else:
                    flatkw[name] = v
            allkw = ("*", "positional->keyword", ("allkw",)) if kw_ok and (real_varkw or set(flatkw) <= real_names) and len(a) > 0 else None
            repeat = ("*", "first call->identical second call", ("repeat",))
            u = int(rng.integers(8))
            if u == 7:
                pname, lab, spec = ("*", "contiguous arrays->Fortran-ordered / strided arrays holding the same values", ("layout",))
            elif u == 6:
                names = [n for n, v in bound.arguments.items() if sig.parameters[n].kind not in (inspect.Parameter.VAR_KEYWORD, inspect.Parameter.VAR_POSITIONAL)
                         and (isinstance(v, (int, float, str, np.integer, np.floating)) or v is None) and not isinstance(v, (bool, np.bool_))]
                if names:
                    pn = names[int(rng.integers(len(names)))]
                    # type-invalid values only: a numerically invalid one (a negative length or step phase) is outside every
                    # property's domain and the pinned FIBER does not terminate on some of them
                    bad = "\u00a7invalid\u00a7"        # (None is a valid "use the default" for many parameters, e.g. PRBS(len=None) at order 31)
                    pname, lab, spec = (pn, "valid->invalid value", ("misuse", pn, bad))
                else:
                    pname, lab, spec = repeat
            elif u == 4:
                pname, lab, spec = ("*", "default print options and warnings filter->other print options, -W error::DeprecationWarning", ("ambient",))
            elif u == 5:
                pname, lab, spec = ("*", "gv as is->another gv.N (t, w, dw rebuilt) and custom gv attributes named like the parameters", ("gvN",))
            elif u == 0 or (not cands and allkw is None):
                pname, lab, spec = repeat
            elif (u == 1 and allkw is not None) or not cands:
                pname, lab, spec = allkw
            else:
                pname, lab, spec = cands[int(rng.integers(len(cands)))]
            key = f"{qual}.{pname}:{lab}"
            try:
                np.random.set_state(st0)
                if spec[0] == "repeat":
                    core.poison_small_blocks(int(rng.integers(4)))       # the identical second call runs on differently poisoned free blocks: a read of uninitialised memory differs
                core._twin[0] += 1
                try:
                    if spec[0] == "allkw":
                        with core.monitor_scope(convert=False), core.quiet():
                            r2 = real(**flatkw)
                    elif spec[0] == "repeat":
                        _depth[0] += 1
                        try:
                            with core.quiet():
                                r2 = orig(*a, **k)
                        finally:
                            _depth[0] -= 1
                    elif spec[0] == "layout":
                        b2 = sig.bind(*a, **k)
                        changed = False
                        for name in list(b2.arguments):
                            if sig.parameters[name].kind in (inspect.Parameter.VAR_KEYWORD, inspect.Parameter.VAR_POSITIONAL):
                                continue
                            nv, c = _relayout(b2.arguments[name])
                            if c:
                                b2.arguments[name] = nv
                                changed = True
                        if not changed:
                            return r
                        _depth[0] += 1
                        try:
                            with core.quiet():
                                r2 = orig(*b2.args, **b2.kwargs)
                        finally:
                            _depth[0] -= 1
                    elif spec[0] == "misuse":
                        # a mistaken call (one argument replaced by an invalid value): whatever it raises, it must leave the other
                        # arguments, gv, the library's module-level variables and the ambient state as they were. No verdict on
                        # whether it raises at all (that is the business of the documented error tables).
                        b2 = sig.bind(*a, **k)
                        b2.arguments[spec[1]] = spec[2]
                        before_args = [core._arg_state(v) for v in b2.args] + [(kk, core._arg_state(v)) for kk, v in sorted(b2.kwargs.items())]
                        before_lib = core.library_state()
                        raised = None
                        _depth[0] += 1
                        try:
                            with core.quiet(), core.monitor_scope(convert=False):
                                real(*b2.args, **b2.kwargs)
                        except core.Watchdog:
                            raise
                        except Exception as ex:          # noqa: any rejection will do
                            raised = ex
                        finally:
                            _depth[0] -= 1
                        if raised is not None:
                            after_args = [core._arg_state(v) for v in b2.args] + [(kk, core._arg_state(v)) for kk, v in sorted(b2.kwargs.items())]
                            ch = [j for j, (x, y) in enumerate(zip(before_args, after_args)) if x != y]
                            d = core.library_state_diff(before_lib, core.library_state())
                            with core.monitor_scope():
                                ctx.check("exception.safety", not ch and d is None,
                                          f"{qual}({spec[1]}={spec[2]!r}) raised {type(raised).__name__} and left " + (f"argument(s) {ch} modified" if ch else "") + (f" library state changed: {d}" if d else ""), key=key)
                                ctx.bin("forms.key", key)
                        return r
                    elif spec[0] == "gvN":
                        import opticomlib.typing as _ty
                        g = _ty.gv
                        saved = dict(vars(g))
                        alt = 3 if g.N != 3 else 5
                        _depth[0] += 1
                        try:
                            g.N = alt
                            g.t = np.linspace(0, alt * g.sps * g.dt, alt * g.sps, endpoint=True)
                            g.dw = 2 * np.pi * g.fs / (alt * g.sps)
                            g.w = 2 * np.pi * np.fft.fftshift(np.fft.fftfreq(alt * g.sps)) * g.fs
                            # ... and user-defined attributes named like this function's own parameters (gv(..., BW=..., G=...) is
                            # how the documentation stores link parameters): an omitted argument means its documented default,
                            # never a same-named attribute of gv
                            for pn in real_names:
                                if pn in ("self", "input", "op_input", "el_input") or pn in saved or pn.startswith("_"):
                                    continue
                                v = bound.arguments.get(pn, None)
                                if isinstance(v, (int, float, np.integer, np.floating)) and not isinstance(v, (bool, np.bool_)) and v != 0 and (abs(v) < 2 ** 62 if isinstance(v, int) else np.isfinite(v)):
                                    av = type(v)(v * 0.5) if not isinstance(v, (int, np.integer)) else type(v)(v + 1)
                                elif pn.upper().startswith("BW"):
                                    av = 0.05 * g.fs
                                else:
                                    av = 2.0
                                setattr(g, pn, av)
                            with core.quiet():
                                r2 = orig(*a, **k)
                        finally:
                            _depth[0] -= 1
                            vars(g).clear()
                            vars(g).update(saved)
                    elif spec[0] == "ambient":
                        _depth[0] += 1
                        try:
                            with core.quiet(), np.printoptions(precision=2, threshold=4, edgeitems=1, suppress=True, linewidth=30, floatmode="fixed"):
                                # deprecation-class warnings promoted to errors (python -W error::DeprecationWarning): a call that
                                # returns under the default filter must return under this one too. The library's own UserWarning /
                                # RuntimeWarning messages stay silenced.
                                import warnings as _w
                                for cat in (DeprecationWarning, PendingDeprecationWarning, FutureWarning, getattr(np, "VisibleDeprecationWarning", DeprecationWarning)):
                                    _w.simplefilter("error", cat)
                                with np.errstate(all="warn"):      # quiet() ignores everything: a seterr(...='ignore') left behind would not show
                                    amb1 = core.ambient_snapshot(full=False)
                                    r2 = orig(*a, **k)
                                    leak = core.ambient_diff(amb1, core.ambient_snapshot(full=False))
                                if leak:
                                    with core.monitor_scope():
                                        ctx.check("ambient.unchanged", False, f"{qual} changed process-global state and did not restore it: {leak}")
                        finally:
                            _depth[0] -= 1
                    else:
                        b2 = sig.bind(*a, **k)
                        if spec[0] == "arg":
                            b2.arguments[spec[1]] = spec[2]
                        else:
                            for name, v in b2.arguments.items():
                                if sig.parameters[name].kind == inspect.Parameter.VAR_KEYWORD:
                                    v = dict(v)
                                    v[spec[1]] = spec[2]
                                    b2.arguments[name] = v
                        _depth[0] += 1
                        try:
                            with core.quiet():
                                r2 = orig(*b2.args, **b2.kwargs)
                        finally:
                            _depth[0] -= 1
                except core.Watchdog:
                    raise
                except (TypeError, ValueError, AttributeError, IndexError, OverflowError, Warning) as e:
                    outcome = f"raises:{type(e).__name__}"
                    if spec[0] in ("repeat", "ambient", "gvN", "layout"):
                        with core.monitor_scope():
                            ctx.check({"repeat": "forms.repeat", "ambient": "forms.ambient", "gvN": "forms.gvN", "layout": "forms.layout"}[spec[0]], False, f"{qual}: the identical call repeated ({lab}; same objects, same numpy RNG state) raises {type(e).__name__}: {str(e)[:160]} although the first call returned", key=key)
                        return r
                    if "RV_FORMS_RECORD" in os.environ:
                        _record.setdefault(key, {}).setdefault(outcome, 0)
                        _record[key][outcome] += 1
                    else:
                        exp = baseline().get(key)
                        if exp is None:
                            ctx.bin("forms.unknown", key)
                        elif any(o.startswith("raises:") for o in exp):
                            ctx.bin("forms.rejected_as_on_pinned_tree", key)
                        else:
                            # no verdict: whether a representation is accepted can depend on the OTHER arguments (PRBS(order=np.int32(7))
                            # is fine with an ordinary seed and a TypeError with a 20000-bit one, on the pinned tree too) — thorough tier,
                            # seed 5, raised a false alarm here when this was still a check
                            ctx.bin("forms.rejected_although_listed_as_accepted", key)
                    return r
                with core.monitor_scope():
                    if "RV_FORMS_RECORD" in os.environ:
                        _record.setdefault(key, {}).setdefault("ok", 0)
                        _record[key]["ok"] += 1
                    ok, why = same(r2, r)
                    if spec[0] == "layout":
                        ctx.check("forms.layout", ok, f"{qual}: result changes when array arguments hold the same values in another memory layout (Fortran order / strided view): {why}", key=key)
                        ctx.bin("forms.key", key)
                        return r
                    if spec[0] == "gvN":
                        ctx.check("forms.gvN", ok, f"{qual}: result depends on the slot count gv.N (which only sizes the convenience axes gv.t / gv.w / gv.dw) or on a user-defined gv attribute named like one of its parameters: {why}", key=key)
                        ctx.bin("forms.key", key)
                        return r
                    if spec[0] == "ambient":
                        ctx.check("forms.ambient", ok, f"{qual}: result depends on numpy's print options / floating-point error state (neither is an argument, gv or the RNG): {why}", key=key)
                        ctx.bin("forms.key", key)
                        return r
                    if spec[0] == "repeat":
                        ctx.check("forms.repeat", ok, f"{qual}: the identical call repeated (same objects, same numpy RNG state) gives a different result: {why}", key=key)
                        ctx.bin("forms.key", key)
                        return r
                    ctx.check("forms.equal", ok, f"{qual}: result changes when `{pname}` is passed as {lab.split('->')[1]} instead of {lab.split('->')[0]} (same value"
                              f"{'' if spec[0] == 'allkw' else ' ' + repr(spec[2])}): {why}", key=key)
                    ctx.bin("forms.key", key)
            finally:
                core._twin[0] -= 1
                np.random.set_state(st1)
            return r
        return wrapper
    return layer


def install(ctx, spec, period=PERIOD):
    """spec: [(module, [function names])]; call after the property's own monitors are attached."""
    for module, names in spec:
        for name in names:
            orig = getattr(module, name)
            wrapper = make_layer(ctx, f"{module.__name__.split('.')[-1]}.{name}", period)(orig)
            wrapper.__rv_orig__ = orig
            try:
                wrapper.__name__ = getattr(orig, "__name__", name)
            except Exception:
                pass
            for m in core.opticomlib_modules():
                for attr, val in list(vars(m).items()):
                    if val is orig:
                        setattr(m, attr, wrapper)
                        core._attached.append((m, attr, orig))


def dump_record():
    out = os.environ.get("RV_FORMS_RECORD")
    if out and _record:
        os.makedirs(out, exist_ok=True)
        with open(os.path.join(out, f"{os.getpid()}.json"), "w") as f:
            json.dump(_record, f)
