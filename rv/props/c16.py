"""C16 — FBG is a passive reflector matching coupled-mode closed forms."""
import numpy as np
from scipy.constants import c as c_light
from scipy.integrate import quad

from .. import core
from ..run import Workload

RULE = ("kL in [0.1,8], vdneff in [1e-5,1e-3], chirp F in [-20,20], the four built-in apodisations and random smooth positive callables, "
        "specification routes {fc | landa_D} x {kL | L | N}, input lengths 2^8..2^12 (quick: <= 2^10), 1/2 polarisations, fs 20-400 GS/s, fc = gv.f0 so "
        "that the Bragg frequency is a grid point. A spy on devices.solve_ivp captures the detuning / coupling vectors and the apodisation "
        "callable actually integrated. Non-trivial: every grating; distinct by (apodisation, route, kL/vdneff/F bins, length, n_pol, fs).")
ASSUMPTIONS = ["'accuracy of the ODE solver' = 5e-3 absolute on |H|^2 and |H| (RK45 at scipy's default rtol 1e-3), for the whole uniform spectrum times (kL/6)^4 above kL = 6 (thorough tier, seed 5: 5.65e-3 at kL = 8 on the pinned tree — a false alarm of the flat bound); route kL vs L agree to 1e-6, the integer-truncated N route to 2e-3",
               "the apodisation profile is the callable captured from the solver's arguments (authoritative over the docstring)",
               "noise-free inputs (FBG returns the filtered signal field only)"]
TOLERANCES = {"ode_abs": 5e-3, "filter_rtol": 1e-9, "route_kL_L": 1e-6, "route_N": 2e-3}
MIN_CHECKS = {"fbg.passive": 60, "fbg.applied": 60, "fbg.peak": 30, "fbg.uniform": 10, "fbg.routes": 10}      # (none of them depends on the solve_ivp spy)
SHARDS = {"quick": 4}
ODE = 5e-3

D = T = None


def setup(ctx):
    global D, T
    import opticomlib.devices as dv
    import opticomlib.typing as ty
    D, T = dv, ty


NAMED_INTEGRALS = {"uniform": [1.0], "parabolic": [2.0 / 3.0], "rcos": [0.5, 0.5 + 1 / np.pi],
                   "gaussian": [quad(lambda z: np.exp(-4 * np.log(2) * (3 * z) ** 2), -0.5, 0.5)[0]]}


def make_input(rng, n, n_pol):
    shape = (2, n) if n_pol == 2 else (n,)
    s = (rng.normal(0, 1, shape) + 1j * rng.normal(0, 1, shape)) * 10 ** rng.uniform(-3, -1)
    if rng.integers(2):
        t = np.arange(n)
        s = s * np.exp(-((t - n / 2) / (n / rng.uniform(4, 16))) ** 2)
    k = int(rng.integers(8))
    if k == 0:
        s = np.real(s).copy()                    # real-dtype field
    elif k == 1:
        s = rng.integers(-9, 10, shape)          # integer-dtype field
    return T.optical_signal(s)


def random_apodisation(rng):
    kind = int(rng.integers(3))
    a, w, ph = float(rng.uniform(0.1, 0.6)), float(rng.uniform(0.15, 0.5)), float(rng.uniform(0, 6))
    m = int(rng.integers(1, 4))
    if kind == 0:
        return "callable:bump", lambda z: a + (1 - a) * np.exp(-(z / w) ** 2)
    if kind == 1:
        return "callable:ripple", lambda z: 1 - a * (0.5 + 0.5 * np.cos(2 * np.pi * m * z + ph))
    return "callable:tilt", lambda z: 0.5 + a * z + 0.4 * np.cos(np.pi * z) ** 2


def run_fbg(x, **kw):
    """call FBG with a spy on the ODE solver; returns (output, H, captured)"""
    cap = {}

    def rec(args, kwargs, result):
        a = kwargs.get("args")
        if a is None or len(a) != 5:
            return                       # the library no longer hands these over through args=: the spy is an optional cross-check only
        cap["delta"], cap["s"], cap["k"], cap["F"], cap["apo"] = a
        cap["t_span"] = kwargs.get("t_span")
        cap["sol"] = result

    with core.spy(D, "solve_ivp", rec), core.quiet():
        out, H = D.FBG(x, print_params=False, retH=True, **kw)
    return out, np.asarray(H), cap


def w_grating(ctx, rng, i):
    fs = float(rng.choice([2e10, 4e10, 8e10, 1.6e11, 4e11]))
    with core.quiet():
        T.gv(sps=int(rng.choice([4, 8, 16])), fs=fs, wavelength=float(rng.choice([1550e-9, 1310e-9, 1560.5e-9])))
    n = int(rng.choice([256, 512, 1024, 250, 509, 257] if ctx.tier == "quick" else [256, 512, 1024, 2048, 4096, 250, 509, 257, 1001]))
    n_pol = int(rng.integers(1, 3))
    x = make_input(rng, n, n_pol)
    kL = float(rng.uniform(0.1, 8)) if i % 10 else float([0.1, 8.0][i // 10 % 2])
    vdneff = float(10 ** rng.uniform(-5, -3)) if i % 14 else float([1e-5, 1e-3][i // 14 % 2])
    chirped = bool(rng.integers(3) == 0)
    F = float(rng.uniform(-20, 20)) if chirped else 0
    apo_name = str(rng.choice(["uniform", "rcos", "gaussian", "parabolic", "custom"]))
    apo = apo_name
    if apo_name == "custom":
        apo_name, apo = random_apodisation(rng)
    # the grating need not sit on the simulation carrier: a third of the cases centre it m bins away (still a grid point)
    m_off = int(rng.integers(-n // 4, n // 4 + 1)) if i % 3 == 1 else 0
    fc = T.gv.f0 + m_off * fs / n
    ctx.describe(fs=fs, n=n, n_pol=n_pol, kL=kL, vdneff=vdneff, F=F, apodisation=apo_name, bragg_offset_bins=m_off)
    d0 = core.digest(x.signal)
    vis = float(rng.choice([1.0, 1.0, 0.5, 0.8, 0.25]))        # visibility: already contained in vdneff, so it must not matter on this route
    neff = float(rng.choice([1.45, 1.45, 1.447, 1.5]))
    ctx.describe(fs=fs, n=n, n_pol=n_pol, kL=kL, vdneff=vdneff, F=F, apodisation=apo_name, v=vis, neff=neff, bragg_offset_bins=m_off)
    # a DC index change of exactly zero stated next to the AC one (dneff=0 or 0.0) is the same design as leaving dneff out
    extra = {} if i % 4 else {"dneff": [0, 0.0][int(rng.integers(2))]}
    out, H, cap = run_fbg(x, fc=fc, vdneff=vdneff, kL=kL, apodization=apo, F=F, v=vis, neff=neff, **extra)
    ctx.check("input_unchanged", core.digest(x.signal) == d0, "FBG modified its input")
    ok = isinstance(out, T.optical_signal) and out.signal.shape == x.signal.shape and out.n_pol == n_pol and H.shape == (n,)
    if not ctx.check("fbg.layout", ok, f"FBG output/H have the wrong shape: out {getattr(getattr(out, 'signal', None), 'shape', None)}, H {H.shape}"):
        return
    R2 = np.abs(H) ** 2
    ctx.check("fbg.passive", np.all(np.isfinite(H)) and np.abs(H).max() <= 1 + ODE, f"|H| exceeds one: max |H| = {np.abs(H).max()!r} (kL={kL:.3g}, F={F:.3g}, {apo_name})")
    want = np.fft.ifft(np.fft.fft(x.signal, axis=-1) * np.fft.ifftshift(H), axis=-1)
    sc = float(np.max(np.abs(x.signal)))
    ctx.check("fbg.applied", np.max(np.abs(out.signal - want)) <= 1e-9 * sc, f"output != ifft(fft(in) * ifftshift(H)) (max dev {np.max(np.abs(out.signal - want)):.3g})")
    e_in = np.sum(np.abs(x.signal) ** 2, axis=-1)
    e_out = np.sum(np.abs(out.signal) ** 2, axis=-1)
    ctx.check("fbg.energy", np.all(e_out <= e_in * (1 + ODE) ** 2), f"reflected energy exceeds the input energy: {e_out} > {e_in}")
    # independent oracle (no dependence on how the library calls its ODE solver): detuning delta(f) = 2 pi neff (f - f_Bragg) L / c with
    # L = kL lambda_D / (pi vdneff), coupling k(f) = kL f / f_Bragg, and the apodisation the caller asked for
    f_abs = T.gv.f0 + np.fft.fftshift(np.fft.fftfreq(n, 1 / fs))
    Lg = kL * (c_light / fc) / (np.pi * vdneff)
    dref = 2 * np.pi * neff * (f_abs - fc) / c_light * Lg
    kref = kL * f_abs / fc
    ic = n // 2 + m_off                  # optical frequency fc: the Bragg frequency
    if apo_name in NAMED_INTEGRALS:
        integrals = NAMED_INTEGRALS[apo_name]      # documented profiles ('rcos': docstring and code disagree, either is accepted)
    else:
        integrals = [quad(lambda z: float(apo(z)), -0.5, 0.5, limit=200)[0]]
    if not chirped:
        ctx.check("fbg.peak", any(abs(R2[ic] - np.tanh(kL * v) ** 2) <= ODE for v in integrals),
                  f"|H(f_Bragg)|^2 = {R2[ic]!r}, tanh^2(kL * integral of the apodisation {integrals}) = {[float(np.tanh(kL * v) ** 2) for v in integrals]} ({apo_name}, Bragg frequency {m_off} bins from the carrier)")
        if apo_name == "uniform":
            dl, kk = dref.astype(complex), kref.astype(complex)
            g = np.sqrt(kk ** 2 - dl ** 2)
            with np.errstate(all="ignore"):
                ref_ = np.real(np.sinh(g) ** 2 / (np.cosh(g) ** 2 - dl ** 2 / kk ** 2))
            # RK45 at scipy's default rtol: its error on the side lobes grows with the grating strength (measured on the pinned tree: 1.5e-3 at
            # kL = 4, 4.9e-3 .. 5.7e-3 at kL = 8): 5e-3 up to kL = 6, then (kL/6)^4 times that (1.6e-2 at kL = 8)
            ctx.check("fbg.uniform", np.max(np.abs(R2 - ref_)) <= ODE * max(1.0, (kL / 6.0) ** 4), f"uniform grating spectrum differs from sinh^2(g)/(cosh^2(g)-d^2/k^2) by {np.max(np.abs(R2 - ref_)):.3g} (kL={kL:.3g}, n_pol={n_pol}, Bragg offset {m_off} bins)")
    # optional cross-check of what the solver was handed (only if the library still passes it through solve_ivp's args=)
    if cap and "delta" in cap:
        dgot = np.ravel(np.asarray(cap["delta"], float))
        ctx.check("fbg.detuning", dgot.shape == dref.shape and np.max(np.abs(dgot - dref)) <= 1e-6 * max(np.max(np.abs(dref)), 1.0),
                  f"detuning vector differs from 2 pi neff (f - f_Bragg) L / c (max dev {np.max(np.abs(dgot - dref)) if dgot.shape == dref.shape else 'shape'} of {np.max(np.abs(dref)):.3g}; Bragg frequency {m_off} bins from the carrier, n_pol={n_pol})")
        if not chirped:
            apo_f = cap.get("apo")
            integral = 1.0 if apo_f is None else quad(lambda z: float(apo_f(z)), -0.5, 0.5, limit=200)[0]
            if apo_name in NAMED_INTEGRALS:
                ctx.check("fbg.named_profile", any(abs(integral - v) <= 1e-6 for v in NAMED_INTEGRALS[apo_name]),
                          f"apodization='{apo_name}' integrated a profile whose integral is {integral:.6g}; the documented profile has {NAMED_INTEGRALS[apo_name]}")
            k_bragg = float(np.ravel(cap["k"])[ic])
            ctx.check("fbg.coupling", abs(k_bragg - kL) <= 1e-6 * kL and np.all(np.ravel(cap["s"]) == 0) and abs(float(np.ravel(cap["delta"])[ic])) <= 1e-6, f"solver inputs at the Bragg frequency: k={k_bragg!r} (kL={kL!r}), delta={float(np.ravel(cap['delta'])[ic])!r}")
    else:
        ctx.not_observed("fbg.detuning")
    ctx.case(("fbg", apo_name, round(kL), round(np.log10(vdneff)), chirped, n, n_pol, fs), sample=dict(fs=fs, n=n, n_pol=n_pol, kL=kL, vdneff=vdneff, F=F, apodisation=apo_name, peak_R=float(R2.max())) if i < 6 else None)
    ctx.bin("apodisation", apo_name.split(":")[0])
    ctx.bin("chirped", chirped)


def w_routes(ctx, rng, i):
    fs = float(rng.choice([4e10, 1.6e11]))
    with core.quiet():
        T.gv(sps=8, fs=fs)
    n = 256
    x = make_input(rng, n, 1)
    kL = float(rng.uniform(0.3, 6))
    vdneff = float(10 ** rng.uniform(-4.5, -3))
    neff = float(rng.choice([1.45, 1.447, 1.5]))
    apo = str(rng.choice(["uniform", "gaussian", "rcos", "parabolic"]))
    fc = T.gv.f0
    lam = c_light / fc
    L = kL / (np.pi * vdneff / lam)
    N = L / (lam / (2 * neff))
    ctx.describe(fs=fs, kL=kL, vdneff=vdneff, neff=neff, apodisation=apo, L=L, N=N)
    base = run_fbg(x, neff=neff, fc=fc, vdneff=vdneff, kL=kL, apodization=apo)[1]
    routes = {
        "fc+L": dict(fc=fc, vdneff=vdneff, L=L),
        "landa_D+kL": dict(landa_D=lam, vdneff=vdneff, kL=kL),
        "landa_D+L": dict(landa_D=lam, vdneff=vdneff, L=L),
    }
    for name, kw in routes.items():
        H = run_fbg(x, neff=neff, apodization=apo, **kw)[1]
        ctx.check("fbg.routes", np.max(np.abs(H - base)) <= 1e-6, f"route {name} gives a different response than fc+kL (max dev {np.max(np.abs(H - base)):.3g})")
    if N > 2000:
        for name, kw in {"fc+N": dict(fc=fc, vdneff=vdneff, N=int(round(N))), "landa_D+N": dict(landa_D=lam, vdneff=vdneff, N=int(round(N)))}.items():
            H = run_fbg(x, neff=neff, apodization=apo, **kw)[1]
            ctx.check("fbg.routes", np.max(np.abs(np.abs(H) - np.abs(base))) <= 2e-3, f"route {name} gives a different |H| than fc+kL (max dev {np.max(np.abs(np.abs(H) - np.abs(base))):.3g})")
    ctx.case(("routes", apo, round(kL), round(np.log10(vdneff), 1), fs), sample=dict(kL=kL, vdneff=vdneff, neff=neff, L=L, N=N, apodisation=apo) if i < 2 else None)


def w_axis(ctx, rng, i):
    """H is a function of optical frequency only: the same grating gives the same response whatever the polarisation layout or
    content of the input, and on a record twice as long (same fs) the response at every second bin is the response of the short
    record. (The closed-form comparison takes the detuning vector the solver was given, so a mis-scaled frequency axis would be
    self-consistent there.)"""
    fs = float(rng.choice([4e10, 8e10, 1.6e11]))
    with core.quiet():
        T.gv(sps=8, fs=fs)
    n = int(rng.choice([128, 256, 250]))
    kL = float(rng.uniform(0.5, 5))
    vdneff = float(10 ** rng.uniform(-4.5, -3))
    apo = str(rng.choice(["uniform", "gaussian", "rcos", "parabolic"]))
    F = float(rng.choice([0, 0, 3.0, -5.0]))
    kw = dict(fc=T.gv.f0, vdneff=vdneff, kL=kL, apodization=apo, F=F)
    ctx.describe(fs=fs, n=n, kL=kL, vdneff=vdneff, apodisation=apo, F=F)
    H1 = run_fbg(make_input(rng, n, 1), **kw)[1]
    H2 = run_fbg(make_input(rng, n, 2), **kw)[1]
    H1b = run_fbg(T.optical_signal(np.ones(n, complex)), **kw)[1]
    ctx.check("fbg.axis", H1.shape == H2.shape == (n,) and np.max(np.abs(H2 - H1)) <= 1e-9 and np.max(np.abs(H1b - H1)) <= 1e-9,
              f"H depends on the input: two-polarisation vs one-polarisation max dev {np.max(np.abs(H2 - H1)) if H1.shape == H2.shape else 'shape'}, other content {np.max(np.abs(H1b - H1)) if H1.shape == H1b.shape else 'shape'}")
    if n % 2 == 0:
        Hd = run_fbg(make_input(rng, 2 * n, int(rng.integers(1, 3))), **kw)[1]      # shifted axes: bin k of the short record is bin 2k of the long one
        ctx.check("fbg.axis", Hd.shape == (2 * n,) and np.max(np.abs(np.abs(Hd[::2]) - np.abs(H1))) <= 2 * ODE,
                  f"|H| on a record twice as long differs at the shared frequencies by {np.max(np.abs(np.abs(Hd[::2]) - np.abs(H1))) if Hd.shape == (2 * n,) else 'shape'}")
    ctx.case(("axis", fs, n, apo, round(kL), F != 0), sample=dict(fs=fs, n=n, kL=kL, apodisation=apo) if i < 2 else None)


def w_errors(ctx, rng, i):
    with core.quiet():
        T.gv(sps=8, fs=8e10)
    x = make_input(rng, 256, 1)
    fc = T.gv.f0
    lam = c_light / fc
    with core.quiet():
        ctx.raises("fbg.errors", ValueError, D.FBG, x, print_params=False)
        ctx.raises("fbg.errors", ValueError, D.FBG, x, fc=fc, print_params=False)
        ctx.raises("fbg.errors", ValueError, D.FBG, x, fc=fc, vdneff=1e-4, print_params=False)
        ctx.raises("fbg.errors", ValueError, D.FBG, x, fc=fc, dneff=1e-4, print_params=False)
        ctx.raises("fbg.errors", ValueError, D.FBG, x, fc=fc, kL=2.0, print_params=False)
        ctx.raises("fbg.errors", ValueError, D.FBG, x, landa_D=lam, print_params=False)
        ctx.raises("fbg.errors", ValueError, D.FBG, x, landa_D=lam, vdneff=1e-4, print_params=False)
        ctx.raises("fbg.errors", ValueError, D.FBG, x, landa_D=lam, dneff=1e-4, print_params=False)
        ctx.raises("fbg.errors", ValueError, D.FBG, x, landa_D=lam, kL=2.0, print_params=False)
        ctx.raises("fbg.errors", ValueError, D.FBG, x, kL=2.0, L=1e-2, vdneff=1e-4, print_params=False)
        ctx.probe("fbg.electrical_input", D.FBG, T.electrical_signal(np.ones(256)), fc=fc, vdneff=1e-4, kL=2.0, print_params=False)        # (probe: the statement names incomplete specifications only)
        ctx.probe("fbg.numeric_apodization", D.FBG, x, fc=fc, vdneff=1e-4, kL=2.0, apodization=3.5, print_params=False)
    ctx.case(("err", i))


def w_two_grids(ctx, rng, i):
    """the same grating on two grids (sampling rate / carrier) and back."""
    n = 256
    x = make_input(rng, n, int(rng.integers(1, 3)))
    kL, vdneff = float(rng.uniform(0.5, 5)), float(10 ** rng.uniform(-4.5, -3.3))
    apo = str(rng.choice(["uniform", "gaussian", "rcos"]))
    grids = [(4e10, 1550e-9), (1.6e11, 1550e-9), (4e10, 1310e-9), (8e10, 1560e-9)]
    a, b = (grids[k] for k in rng.choice(len(grids), 2, replace=False))
    ctx.describe(kL=kL, vdneff=vdneff, apodisation=apo, grid_sequence=[a, b, a])
    Hs = []
    for fs, wl in (a, b, a):
        with core.quiet():
            T.gv(sps=8, fs=fs, wavelength=wl)
        out, H, cap = run_fbg(x, fc=T.gv.f0, vdneff=vdneff, kL=kL, apodization=apo)
        R2 = np.abs(H) ** 2
        ctx.check("fbg.peak", any(abs(R2[n // 2] - np.tanh(kL * v) ** 2) <= ODE for v in NAMED_INTEGRALS[apo]),
                  f"|H(f_Bragg)|^2 = {R2[n // 2]!r} vs tanh^2(kL * {NAMED_INTEGRALS[apo]}) on grid fs={fs:.3g}, wavelength={wl:.4g} (sequence {[a, b, a]})")
        ctx.check("fbg.passive", np.abs(H).max() <= 1 + ODE, "|H| exceeds one after a grid change")
        Hs.append(H)
    ctx.check("grid.history", np.max(np.abs(Hs[0] - Hs[2])) <= 1e-12, "FBG response on the first grid differs after a visit to another grid")
    ctx.case(("grids", a, b, apo), sample=dict(kL=kL, vdneff=vdneff, grid_sequence=[a, b, a]) if i < 2 else None)


def FORM_TWINS():
    import opticomlib.devices as dv
    return [(dv, ["FBG"])]


WORKLOADS = [
    Workload("grating", w_grating, 500, 8000, budget=300),
    Workload("routes", w_routes, 40, 600, budget=300),
    Workload("errors", w_errors, 2, 8, budget=120),
    Workload("two_grids", w_two_grids, 24, 600, budget=300),
    Workload("axis", w_axis, 40, 800, budget=300),
]


def classify(v):
    return None
