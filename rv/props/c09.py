"""C09 — PD is a square-law detector with unit DC gain and the documented noise powers."""
import numpy as np
from scipy.constants import k as kB, e as qe

from .. import core
from ..run import Workload

RULE = ("complex fields (1/2 pol, with/without optical noise) longer than the filter padding, r in (0,1], T in [0,400], R_load in [1,1e4], "
        "BW in (0.01,0.49)*fs, i_dark in [0,1e-6], Fn in [0,10] dB, all seven include_noise selections in random letter case, fs in "
        "{1e9..1e12}; twin calls under a saved numpy RNG state isolate each selected term; statistical cases on CW records of 2^18 "
        "(quick) / 2^20 (thorough) samples with six-sigma bands from the filtered-noise autocorrelation. Non-trivial: >= 32 samples and "
        "a non-constant field or optical noise; distinct by (n_pol, noise, selection, parameter decades, fs).")
ASSUMPTIONS = ["'low-pass filtered' = the library's own LPF applied to the deterministic photocurrent (C11 decides the filter itself)",
               "noise-equivalent-bandwidth factor measured from the real filter's impulse response (sum of squares)",
               "statistical bands: 6 sigma with sigma from the Gaussian-process formula Var(s^2) = 2 sigma^4 sum_k rho_k^2 / N"]
TOLERANCES = {"deterministic_rtol": 1e-9, "statistical_sigmas": 6}
MIN_CHECKS = {"pd.signal": 300, "twin.beat": 200, "twin.ase_only": 50, "stat.var": 8, "stat.mean": 8, "errors": 20}
SHARDS = {"quick": 4}

D = T = None
SELECTIONS = ["ase-only", "thermal-only", "shot-only", "ase-thermal", "ase-shot", "thermal-shot", "all"]


def relerr(a, b, floor=0.0):
    a, b = np.asarray(a), np.asarray(b)
    if a.shape != b.shape:
        return np.inf
    return float(np.max(np.abs(a - b))) / max(float(np.max(np.abs(b))), floor, 1e-300)


def photocurrent_power(x):
    P = np.abs(x.signal) ** 2
    return P.sum(axis=0) if x.n_pol == 2 else P


def beat_terms(x):
    if x.noise is None:
        return np.zeros(x.len())
    b = 2 * np.real(x.signal * np.conj(x.noise)) + np.abs(x.noise) ** 2
    return b.sum(axis=0) if x.n_pol == 2 else b


def lpf_ref(v, BW):
    with core.monitor_scope(), core.quiet():
        return D.LPF(T.electrical_signal(np.asarray(v, dtype=float)), BW).signal


def setup(ctx):
    global D, T
    import opticomlib.devices as dv
    import opticomlib.typing as ty
    D, T = dv, ty

    def pd_post(orig):
        def wrapper(input, BW, r=1.0, T_=300.0, R_load=50.0, include_noise="all", i_dark=10e-9, Fn=0, **kw):
            if "T" in kw:
                T_ = kw.pop("T")
            out = orig(input, BW, r, T_, R_load, include_noise, i_dark, Fn, **kw)
            if core.in_monitor():
                return out
            with core.monitor_scope():
                ctx.call("pd.signal")
                ok = isinstance(out, T.electrical_signal) and out.signal.shape == (input.len(),) and out.noise is not None and out.noise.shape == (input.len(),)
                ctx.check("pd.length", ok, "PD output is not an electrical_signal of the input's length with a noise component")
                if ok:
                    want = lpf_ref(R_load * r * photocurrent_power(input), BW)
                    ctx.check("pd.signal", relerr(out.signal, want) <= 1e-9, f"PD signal part != LPF(R_load*r*(|Ex|^2+|Ey|^2)) (rel err {relerr(out.signal, want):.3g})", r=r, R_load=R_load, n_pol=input.n_pol)
                    ctx.check("pd.finite", np.all(np.isfinite(out.signal)) and np.all(np.isfinite(out.noise)), "PD output not finite")
            return out
        return wrapper

    core.attach(dv, "PD", pd_post)


def set_fs(rng):
    fs = float(rng.choice([1e9, 1.6e10, 8e10, 1e12]))
    if rng.integers(8) == 0:      # "all sampling rates"
        fs = float(rng.choice([16.0, 1000.0, 44100.0, 1e15]))
    with core.quiet():
        if rng.integers(4) == 0:      # a sampling rate that is not an integer multiple of the slot rate: everything follows gv.fs, not sps*R
            T.gv(R=fs / float(rng.choice([2.5, 3.3, 7.6])), fs=fs)
        else:
            T.gv(sps=int(rng.choice([4, 8, 16])), fs=fs)
    return float(T.gv.fs)


def make_field(rng, n, n_pol, noise, amp):
    shape = (2, n) if n_pol == 2 else (n,)
    t = np.arange(n)
    kind = int(rng.integers(3))
    if kind == 0:
        s = (rng.normal(0, 1, shape) + 1j * rng.normal(0, 1, shape))
    elif kind == 1:
        s = (1 + 0.5 * np.sin(2 * np.pi * rng.uniform(0.01, 0.2) * t)) * np.exp(1j * rng.uniform(0, 6)) * np.ones(shape)
    else:
        s = np.repeat(rng.integers(0, 2, (shape[0] if n_pol == 2 else 1, (n + 7) // 8)), 8, axis=-1)[..., :n].reshape(shape) + 0.05 + 0j
    s = s * amp
    nz = (rng.normal(0, 1, shape) + 1j * rng.normal(0, 1, shape)) * amp * 10 ** rng.uniform(-2, -0.5) if noise else None
    if rng.integers(8) == 0:                              # real-dtype field (and noise)
        s = np.real(s).copy()
        nz = None if nz is None else np.real(nz).copy()
    s = core.degenerate_rows(rng, s, every=8, rows_only=True)
    nz = None if nz is None else core.degenerate_rows(rng, nz, every=5, rows_only=True)
    return T.optical_signal(s, nz)


def rand_case(rng):
    return dict(r=float(rng.uniform(0.05, 1.0)) if rng.integers(4) else 1.0, T=float(rng.uniform(0, 400)) if rng.integers(5) else 0.0,
                R_load=float(10 ** rng.uniform(0, 4)), i_dark=float(10 ** rng.uniform(-10, -6)) if rng.integers(4) else 0.0, Fn=float(rng.uniform(0, 10)) if rng.integers(2) else 0)


def letter_case(rng, s):
    m = int(rng.integers(4))
    return [s, s.upper(), s.title(), "".join(c.upper() if rng.integers(2) else c for c in s)][m]


def w_deterministic(ctx, rng, i):
    fs = set_fs(rng)
    n = core.long_or(rng, i, int(rng.choice([17, 32, 100, 257, 1024])))
    n_pol = int(rng.integers(1, 3))
    noise = bool(rng.integers(2))
    amp = float(10 ** rng.uniform(-4, -0.5)) if rng.integers(8) else float(10 ** rng.choice([-9.0, -7.0, 0.5]))
    x = make_field(rng, n, n_pol, noise, amp)
    p = rand_case(rng)
    BW = float(rng.uniform(0.01, 0.49)) * fs
    sel = SELECTIONS[i % 7]
    ctx.describe(n=n, n_pol=n_pol, noise=noise, amp=amp, fs=fs, BW_over_fs=BW / fs, sel=sel, **p)
    d0 = core.digest(x.signal, x.noise)
    seed = int(rng.integers(2 ** 31))
    with core.quiet():
        np.random.seed(seed)
        st = np.random.get_state()
        y = D.PD(x, BW, p["r"], p["T"], p["R_load"], letter_case(rng, sel), p["i_dark"], p["Fn"])     # pd.signal decides the signal part
        # signal part is deterministic: a different RNG state gives the same signal
        np.random.seed(seed + 1)
        y2 = D.PD(x, BW, p["r"], p["T"], p["R_load"], sel, p["i_dark"], p["Fn"])
        ctx.check("pd.deterministic", np.array_equal(y.signal, y2.signal), "PD signal part depends on the random state")
        # same RNG state -> same noise, whatever the letter case
        np.random.set_state(st)
        y3 = D.PD(x, BW, p["r"], p["T"], p["R_load"], sel.upper(), p["i_dark"], p["Fn"])
        ctx.check("pd.case_insensitive", np.array_equal(y3.noise, y.noise) and np.array_equal(y3.signal, y.signal), "include_noise is not case-insensitive / not reproducible under the same RNG state")
        # twin calls isolating the beating terms
        beat = lpf_ref(p["R_load"] * p["r"] * beat_terms(x), BW)
        for with_ase, without in (("ase-thermal", "thermal-only"), ("ase-shot", "shot-only"), ("all", "thermal-shot")):
            np.random.set_state(st)
            a = D.PD(x, BW, p["r"], p["T"], p["R_load"], with_ase, p["i_dark"], p["Fn"])
            np.random.set_state(st)
            b = D.PD(x, BW, p["r"], p["T"], p["R_load"], without, p["i_dark"], p["Fn"])
            floor = max(float(np.max(np.abs(a.noise))), float(np.max(np.abs(b.noise))))
            ctx.check("twin.beat", relerr(a.noise - b.noise, beat, floor=floor) <= 1e-9, f"noise('{with_ase}') - noise('{without}') != filtered signal-noise + noise-noise beating", n_pol=n_pol, has_noise=noise)
        np.random.set_state(st)
        ao = D.PD(x, BW, p["r"], p["T"], p["R_load"], "ase-only", p["i_dark"], p["Fn"])
        want = lpf_ref(p["R_load"] * (p["r"] * beat_terms(x) + p["i_dark"]), BW)
        ctx.check("twin.ase_only", relerr(ao.noise, want, floor=p["R_load"] * p["i_dark"]) <= 1e-9, "'ase-only' noise != filtered beating terms + dark-current offset")
        ao2 = D.PD(x, BW, p["r"], float(rng.uniform(0, 400)), p["R_load"], "ase-only", p["i_dark"], float(rng.uniform(0, 10)))
        ctx.check("twin.ase_only", np.array_equal(ao2.noise, ao.noise) and np.array_equal(ao2.signal, ao.signal), "'ase-only' output depends on T / Fn although no thermal term is selected")
        ctx.check("twin.ase_only_no_draw", _same_state(np.random.get_state(), st), "'ase-only' consumed random numbers (thermal/shot must not be drawn)")
        # T = 0 K (given as float or int): the thermal variance 4 kB T Fn B / R_load is exactly zero, so 'ase-thermal' carries the same noise as 'ase-only'
        np.random.set_state(st)
        at0 = D.PD(x, BW, p["r"], [0.0, 0][int(rng.integers(2))], p["R_load"], "ase-thermal", p["i_dark"], p["Fn"])
        ctx.check("twin.thermal_T0", relerr(at0.noise, want, floor=p["R_load"] * p["i_dark"]) <= 1e-9, "'ase-thermal' at T = 0 K differs from the beating terms + dark offset: thermal noise was added at zero temperature")
    ctx.check("input_unchanged", core.digest(x.signal, x.noise) == d0, "PD modified its input")
    ctx.case(("det", n_pol, noise, sel, n, fs, round(np.log10(p["R_load"])), p["T"] == 0, p["i_dark"] == 0), nontrivial=n >= 32,
             sample=dict(n=n, n_pol=n_pol, noise=noise, sel=sel, fs=fs, BW_over_fs=BW / fs, **p) if i < 4 else None)
    ctx.bin("selection", sel)


def _same_state(a, b):
    return a[0] == b[0] and np.array_equal(a[1], b[1]) and a[2:] == b[2:]


def w_invariance(ctx, rng, i):
    fs = set_fs(rng)
    n = int(rng.choice([64, 255, 1000]))
    n_pol = int(rng.integers(1, 3))
    amp = float(10 ** rng.uniform(-3, -1))
    x = make_field(rng, n, n_pol, False, amp)
    p = rand_case(rng)
    BW = float(rng.uniform(0.05, 0.45)) * fs
    if i % 4 == 1:       # "BW in (0, fs/2)": a detector that is very slow compared with the sampling rate (numerically the hard end for a recursive filter)
        BW = fs * float(10 ** rng.uniform(-5, -2))
    # a recursive low-pass whose poles sit (BW/fs) away from z = 1 amplifies rounding by about (fs/BW)^2 (measured on the pinned tree:
    # 6e-12 at BW/fs = 1e-3, 3e-8 at 1e-5); 1e-15 (fs/BW)^2 leaves two to three decades of margin
    tol = max(1e-9, 1e-15 * (fs / BW) ** 2)
    ctx.describe(n=n, n_pol=n_pol, fs=fs, BW_over_fs=BW / fs, **p)
    with core.quiet():
        base = D.PD(x, BW, p["r"], p["T"], p["R_load"], "ase-only", p["i_dark"]).signal
        sc = float(np.max(np.abs(base)))
        # global and time-varying phase
        ph = np.exp(1j * (rng.uniform(0, 6) + np.cumsum(rng.normal(0, 0.5, n))))
        y = D.PD(T.optical_signal(x.signal * ph), BW, p["r"], p["T"], p["R_load"], "ase-only", p["i_dark"]).signal
        ctx.check("invariance", relerr(y, base, floor=sc) <= tol, "PD output changes under a phase rotation of the field")
        if n_pol == 2:
            a, b = rng.normal(0, 1, 2) + 1j * rng.normal(0, 1, 2)
            nrm = np.sqrt(abs(a) ** 2 + abs(b) ** 2)
            U = np.array([[a, b], [-np.conj(b), np.conj(a)]]) / nrm * np.exp(1j * rng.uniform(0, 6))
            y = D.PD(T.optical_signal(U @ x.signal), BW, p["r"], p["T"], p["R_load"], "ase-only", p["i_dark"]).signal
            ctx.check("invariance", relerr(y, base, floor=sc) <= tol, "PD output changes under a unitary rotation of the polarisation state")
        else:   # a 1-pol field equals the same field in x with an empty y
            y = D.PD(T.optical_signal(np.stack([x.signal, np.zeros(n)])), BW, p["r"], p["T"], p["R_load"], "ase-only", p["i_dark"]).signal
            ctx.check("invariance", relerr(y, base, floor=sc) <= tol, "1-pol field and the same field with an empty y-polarisation detect differently")
        # scaling laws
        k = float(rng.uniform(0.2, 3))
        r2 = min(1.0, p["r"] * float(rng.uniform(0.2, 1.0)))
        y = D.PD(x, BW, r2, p["T"], p["R_load"], "ase-only", p["i_dark"]).signal
        ctx.check("scaling", relerr(y, base * r2 / p["r"], floor=sc) <= tol, "PD signal is not linear in r")
        y = D.PD(x, BW, p["r"], p["T"], p["R_load"] * k, "ase-only", p["i_dark"]).signal
        ctx.check("scaling", relerr(y, base * k, floor=sc * k) <= tol, "PD signal is not linear in R_load")
        y = D.PD(T.optical_signal(x.signal * k), BW, p["r"], p["T"], p["R_load"], "ase-only", p["i_dark"]).signal
        ctx.check("scaling", relerr(y, base * k * k, floor=sc * k * k) <= tol, "PD signal is not quadratic in the field amplitude")
        # CW field of power P -> constant r*P*R_load
        P = float(10 ** rng.uniform(-6, -1))
        cw = np.sqrt(P / n_pol) * np.exp(1j * rng.uniform(0, 6, (n_pol, 1))) * np.ones((n_pol, n))
        y = D.PD(T.optical_signal(cw if n_pol == 2 else cw[0]), BW, p["r"], p["T"], p["R_load"], "all", p["i_dark"]).signal
        ctx.check("cw_gain", np.allclose(y, p["r"] * P * p["R_load"], rtol=tol, atol=0), f"CW power {P} W does not give the constant voltage r*P*R_load (got {y[n // 2]!r}, want {p['r'] * P * p['R_load']!r})")
    ctx.case(("inv", n_pol, n, fs, round(np.log10(p["R_load"]))), sample=dict(n=n, n_pol=n_pol, fs=fs, **p) if i < 3 else None)


def w_errors(ctx, rng, i):
    set_fs(rng)
    x = make_field(rng, 40, int(rng.integers(1, 3)), True, 0.01)
    BW = 0.3 * T.gv.fs
    with core.quiet():
        ctx.probe("pd.electrical_input", D.PD, T.electrical_signal(np.ones(40)), BW)        # (probe: the statement names invalid r, T, R_load, include_noise only)
        ctx.probe("pd.ndarray_input", D.PD, np.ones(40, complex), BW)
        for bad in (0, -0.5, 1.0001, 2, float(-rng.uniform(0, 3))):
            ctx.raises("errors", ValueError, D.PD, x, BW, bad)
        ctx.raises("errors", TypeError, D.PD, x, BW, "1")
        ctx.raises("errors", TypeError, D.PD, x, BW, [0.5])
        ctx.raises("errors", ValueError, D.PD, x, BW, 1.0, float(-rng.uniform(0.1, 300)))
        ctx.raises("errors", TypeError, D.PD, x, BW, 1.0, "300")
        ctx.raises("errors", ValueError, D.PD, x, BW, 1.0, 300.0, float(-rng.uniform(0.1, 100)))
        ctx.raises("errors", TypeError, D.PD, x, BW, 1.0, 300.0, "50")
        for bad in (True, None, 3, ["all"]):
            ctx.raises("errors", TypeError, D.PD, x, BW, 1.0, 300.0, 50.0, bad)
        for bad in ("", "none", "thermal", "shot", "ase", "everything", "ase-only ", "thermal_only", "ase-thermal-shot", "noise"):
            ctx.raises("errors", ValueError, D.PD, x, BW, 1.0, 300.0, 50.0, bad)
        y = D.PD(x, BW, 1, 0, 50)       # int r, T = 0 accepted
        ctx.check("errors", y.len() == 40, "valid int r / T=0 rejected")
    ctx.case(("err", i))


def noise_stats(g):
    """(variance factor, sum rho_k^2, sum rho_k) for white noise through the impulse response g."""
    ac = np.correlate(g, g, mode="full") if g.size < 4096 else np.fft.irfft(np.abs(np.fft.rfft(g, 2 * g.size)) ** 2)
    if g.size >= 4096:
        ac = np.concatenate([ac[-(g.size - 1):], ac[:g.size]])
    c0 = ac.max()
    rho = ac / c0
    return float(np.sum(g ** 2)), float(np.sum(rho ** 2)), float(np.sum(rho))


def w_statistical(ctx, rng, i):
    """long CW records: sample mean and variance of the noise part vs the documented formulas times the filter's NEB factor."""
    fs = set_fs(rng)
    N = 2 ** 18 if ctx.tier == "quick" else 2 ** 20
    n_pol = int(rng.integers(1, 3))
    sel = ["thermal-only", "shot-only", "thermal-shot", "all", "ase-thermal", "ase-shot", "shot-only"][i % 7]
    p = rand_case(rng)
    regime = i % 3
    P = float(10 ** rng.uniform(-5, -2))
    if "shot" in sel and regime == 0:      # dark current dominates the shot term
        P = 1e-9
        p["i_dark"] = float(10 ** rng.uniform(-7, -6))
    if sel == "thermal-shot" or sel == "all":
        # make both terms matter: choose R_load so thermal ~ shot
        p["T"] = float(rng.uniform(100, 400))
        p["R_load"] = float(np.clip(4 * kB * p["T"] * 10 ** (p["Fn"] / 10) / (2 * qe * (p["r"] * P + p["i_dark"])) * 10 ** rng.uniform(-0.5, 0.5), 1, 1e4))
    if "thermal" in sel and p["T"] == 0:
        p["T"] = 290.0
    has_opt_noise = sel.startswith("ase") or sel == "all" or (sel == "shot-only" and i % 2 == 1)
    BWn = float(rng.uniform(0.05, 0.45))
    BW = BWn * fs
    cw = np.sqrt(P / n_pol) * np.ones((n_pol, N)) * np.exp(1j * rng.uniform(0, 6, (n_pol, 1)))
    if i % 2 == 1 and not has_opt_noise:
        # a field whose power steps from 1.8 P (first half) to 0.2 P (second half): the documented shot term is stationary, its variance is
        # set by the MEAN signal power of the record, so each half of the noise still obeys the same law (stat.var_halves)
        prof = np.where(np.arange(N) < N // 2, np.sqrt(1.8), np.sqrt(0.2))
        cw = cw * prof
    np.random.seed(int(rng.integers(2 ** 31)))
    Pn = 0.0
    nz = None
    if has_opt_noise:
        Pn = P * float(10 ** rng.uniform(-3, -1.5))
        if "shot" in sel and i % 4 == 1:       # optical-noise power dominates the mean photocurrent
            Pn = P * float(10 ** rng.uniform(0.3, 1.0))
        nz = np.sqrt(Pn / n_pol / 2) * (np.random.randn(n_pol, N) + 1j * np.random.randn(n_pol, N))
    x = T.optical_signal(cw if n_pol == 2 else cw[0], None if nz is None else (nz if n_pol == 2 else nz[0]))
    ctx.describe(sel=sel, N=N, n_pol=n_pol, fs=fs, BW_over_fs=BWn, P=P, Pn=Pn, **p)
    with core.quiet():
        st = np.random.get_state()
        y = D.PD(x, BW, p["r"], p["T"], p["R_load"], sel, p["i_dark"], p["Fn"])
        noise = y.noise
        if sel.startswith("ase") or sel == "all":        # remove the (deterministic given x) beating part with a twin call
            np.random.set_state(st)
            twin = {"ase-thermal": "thermal-only", "ase-shot": "shot-only", "all": "thermal-shot"}[sel]
            noise = D.PD(x, BW, p["r"], p["T"], p["R_load"], twin, p["i_dark"], p["Fn"]).noise
        imp = np.zeros(4096)
        imp[2048] = 1.0
        g = lpf_ref(imp, BW)
    neb, sum_rho2, sum_rho = noise_stats(g)
    B = fs / 2
    Pn_meas = float(np.sum(np.mean(np.abs(x.noise) ** 2, axis=-1))) if x.noise is not None else 0.0
    var_A2 = 0.0
    if "thermal" in sel or sel == "all":
        var_A2 += 4 * kB * p["T"] * 10 ** (p["Fn"] / 10) * B / p["R_load"]
    if "shot" in sel or sel == "all":
        var_A2 += 2 * qe * (p["r"] * (P + Pn_meas) + p["i_dark"]) * B
    want_var = var_A2 * p["R_load"] ** 2 * neb
    mid = noise[N // 64: -N // 64]
    s2 = float(np.var(mid))
    m = float(np.mean(mid))
    n_eff = mid.size
    band_var = 6 * want_var * np.sqrt(2 * sum_rho2 / n_eff)
    band_mean = 6 * np.sqrt(want_var * sum_rho / n_eff)
    ctx.check("stat.var", abs(s2 - want_var) <= band_var, f"{sel}: measured noise variance {s2:.6g} V^2, documented {want_var:.6g} V^2 (ratio {s2 / want_var:.4f}, 6-sigma band +-{band_var / want_var:.4f})",
              ratio=s2 / want_var)
    ctx.check("stat.mean", abs(m - p["i_dark"] * p["R_load"]) <= band_mean + 1e-12 * p["i_dark"] * p["R_load"], f"{sel}: noise mean {m:.6g} V, expected the dark-current offset {p['i_dark'] * p['R_load']:.6g} V (band {band_mean:.3g})")
    # stationarity: each half of the record obeys the same variance law
    for name, part in (("first half", mid[: mid.size // 2]), ("second half", mid[mid.size // 2:])):
        s2h = float(np.var(part))
        ctx.check("stat.var_halves", abs(s2h - want_var) <= 6 * want_var * np.sqrt(2 * sum_rho2 / part.size), f"{sel}: variance of the {name} {s2h:.6g} V^2 vs documented {want_var:.6g} V^2 (ratio {s2h / want_var:.4f})")
    # Gaussianity (coarse): kurtosis of a decimated (approximately independent) subsequence
    step = max(1, int(np.ceil(2 / BWn)))
    z = (mid[::step] - m) / np.sqrt(s2)
    kurt = float(np.mean(z ** 4))
    ctx.check("stat.gauss", abs(kurt - 3) <= 6 * np.sqrt(96 / z.size) + 0.05, f"{sel}: noise is not Gaussian-like (kurtosis {kurt:.3f})")
    ctx.case(("stat", sel, n_pol, regime, fs, round(BWn, 1)), sample=dict(sel=sel, N=N, n_pol=n_pol, fs=fs, BW_over_fs=BWn, P=P, measured_over_documented=s2 / want_var, **p) if i < 7 else None)
    ctx.bin("stat.selection", sel)


def w_two_grids(ctx, rng, i):
    """identical PD parameters and CW power on two sampling rates within one process: thermal and shot variances scale with the
    bandwidth fs/2 of the grid in force each time."""
    N = 2 ** 17
    fa, fb = (float(v) for v in rng.choice([1e10, 4e10, 1.6e11], 2, replace=False))
    p = rand_case(rng)
    p["T"] = float(rng.uniform(150, 400))
    P = float(10 ** rng.uniform(-5, -3))
    sel = ["thermal-only", "shot-only", "thermal-shot"][i % 3]
    np.random.seed(int(rng.integers(2 ** 31)))
    ctx.describe(sel=sel, fs_sequence=[fa, fb, fa], P=P, **p)
    for fs in (fa, fb, fa):
        with core.quiet():
            T.gv(sps=8, fs=fs)
            BW = 0.2 * fs
            y = D.PD(T.optical_signal(np.sqrt(P) * np.ones(N, complex)), BW, p["r"], p["T"], p["R_load"], sel, p["i_dark"], p["Fn"])
            imp = np.zeros(4096)
            imp[2048] = 1.0
            g = lpf_ref(imp, BW)
        neb, sum_rho2, _ = noise_stats(g)
        var_A2 = (4 * kB * p["T"] * 10 ** (p["Fn"] / 10) * fs / 2 / p["R_load"] if "thermal" in sel else 0.0) + (2 * qe * (p["r"] * P + p["i_dark"]) * fs / 2 if "shot" in sel else 0.0)
        want = var_A2 * p["R_load"] ** 2 * neb
        mid = y.noise[N // 64: -N // 64]
        s2 = float(np.var(mid))
        ctx.check("stat.var", abs(s2 - want) <= 6 * want * np.sqrt(2 * sum_rho2 / mid.size), f"{sel}: variance {s2:.6g} V^2 vs documented {want:.6g} V^2 at fs={fs:.3g} (ratio {s2 / want:.4f}; sampling-rate sequence {[fa, fb, fa]})", ratio=s2 / want)
    ctx.case(("grids", sel, fa, fb), sample=dict(sel=sel, fs_sequence=[fa, fb, fa]) if i < 2 else None)


def FORM_TWINS():
    import opticomlib.devices as dv
    return [(dv, ["PD"])]


WORKLOADS = [
    Workload("deterministic", w_deterministic, 700, 40000, budget=400),
    Workload("invariance", w_invariance, 300, 20000),
    Workload("errors", w_errors, 6, 60),
    Workload("statistical", w_statistical, 28, 224, budget=300),
    Workload("repo_tests", lambda ctx, rng, i: core.run_repo_tests(ctx), 1, 1, budget=1800, tiers=("thorough",)),
    Workload("two_grids", w_two_grids, 9, 120, budget=300),
]


def classify(v):
    return None
