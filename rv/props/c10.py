"""C10 — EDFA applies gain G to all of its input and adds ASE of the documented power."""
import numpy as np
from scipy.constants import h as h_planck, c as c_light

from .. import core
from ..run import Workload

RULE = ("1/2-pol inputs with and without a noise component, real and complex dtypes, G in [0,40] dB, NF in [3,10] dB, several gv.f0 / fs, "
        "with and without the optical filter; the ASE realisation is isolated by a noise-free twin call under the same numpy RNG state; "
        "statistical cases on >= 2^16 samples (total ASE power, equal variances and independence of the four quadratures, fresh draws). "
        "Non-trivial: >= 8 samples; distinct by (n_pol, noise, dtype, G/NF bins, BW, fs, f0).")
ASSUMPTIONS = ["the 'OSNR never increases' clause is asserted through the exact decomposition noise_out = sqrt(G)*noise_in + ASE (and on long records), "
               "not on short-record sample powers where the random cross term can have either sign",
               "with BW: output must equal the library's own BPF applied to the unfiltered output obtained under the same RNG state"]
TOLERANCES = {"deterministic_rtol": 1e-9, "statistical_sigmas": 6}
MIN_CHECKS = {"edfa.signal": 300, "edfa.noise_gain": 300, "stat.power": 6, "stat.independent": 6}
SHARDS = {"quick": 4}

D = T = None


def relerr(a, b, floor=0.0):
    a, b = np.asarray(a), np.asarray(b)
    if a.shape != b.shape:
        return np.inf
    return float(np.max(np.abs(a - b))) / max(float(np.max(np.abs(b))), floor, 1e-300)


def two_rows(a, n_pol):
    a = np.asarray(a)
    return a if n_pol == 2 else np.stack([a, np.zeros_like(a)])


def setup(ctx):
    global D, T
    import opticomlib.devices as dv
    import opticomlib.typing as ty
    D, T = dv, ty

    def edfa_post(orig):
        def wrapper(input, G, NF, BW=None):
            st0 = np.random.get_state()
            out = orig(input, G, NF, BW)
            if core.in_monitor():
                return out
            st1 = np.random.get_state()
            try:
                with core.monitor_scope(), core.quiet():
                    ctx.call("edfa.signal")
                    n = input.len()
                    ok = isinstance(out, T.optical_signal) and out.n_pol == 2 and out.signal.shape == (2, n) and out.noise is not None and out.noise.shape == (2, n)
                    if not ctx.check("edfa.layout", ok, f"EDFA output is not a two-polarisation signal+noise of the input's length (n_pol={getattr(out, 'n_pol', None)}, shape={getattr(getattr(out, 'signal', None), 'shape', None)})"):
                        return out
                    g = np.sqrt(10 ** (G / 10))
                    clean = T.optical_signal(np.array(input.signal, dtype=complex))
                    np.random.set_state(st0)
                    twin = orig(clean, G, NF, None)            # same draws -> same ASE realisation, unfiltered
                    ase = twin.noise
                    want_s = g * two_rows(input.signal, input.n_pol)
                    want_n = ase + (g * two_rows(input.noise, input.n_pol) if input.noise is not None else 0)
                    if BW is not None:
                        f = D.BPF(T.optical_signal(want_s, want_n), BW)
                        want_s, want_n = f.signal, f.noise
                    sc_n = max(float(np.max(np.abs(want_n))), float(np.max(np.abs(out.noise))))
                    ctx.check("edfa.signal", relerr(out.signal, want_s) <= 1e-9, f"EDFA signal part != sqrt(G) * input in the polarisations present (G={G} dB, input n_pol={input.n_pol}, BW={BW})")
                    ctx.check("edfa.noise_gain", relerr(out.noise, want_n, floor=sc_n) <= 1e-9,
                              f"EDFA noise part != sqrt(G) * input noise (same polarisations) + ASE (G={G} dB, input n_pol={input.n_pol}, input noise={'yes' if input.noise is not None else 'no'}, BW={BW})",
                              excess_rms=float(np.sqrt(np.mean(np.abs(out.noise - want_n) ** 2))) if out.noise.shape == np.shape(want_n) else None)
                    ctx.check("edfa.finite", np.all(np.isfinite(out.signal)) and np.all(np.isfinite(out.noise)), "EDFA output not finite")
            finally:
                np.random.set_state(st1)
            return out
        return wrapper

    core.attach(dv, "EDFA", edfa_post)


def set_gv(rng):
    fs = float(rng.choice([1e9, 1.6e10, 8e10, 4e11]))
    if rng.integers(8) == 0:      # "all sampling rates"
        fs = float(rng.choice([16.0, 1000.0, 44100.0, 1e15]))
    wl = float(rng.choice([1550e-9, 1310e-9, 1565e-9, 850e-9]))
    with core.quiet():
        if rng.integers(4) == 0:      # a sampling rate that is not an integer multiple of the slot rate: everything follows gv.fs, not sps*R
            T.gv(R=fs / float(rng.choice([2.5, 3.3, 7.6])), fs=fs, wavelength=wl)
        else:
            T.gv(sps=int(rng.choice([4, 8, 16])), fs=fs, wavelength=wl)
    return float(T.gv.fs), wl


def w_gain(ctx, rng, i):
    fs, wl = set_gv(rng)
    n = core.long_or(rng, i, int(rng.choice([8, 17, 64, 255, 1024])))
    n_pol = int(rng.integers(1, 3))
    noise = bool(rng.integers(3))
    dtype = ["complex", "complex", "float"][int(rng.integers(3))]
    shape = (2, n) if n_pol == 2 else (n,)
    amp = float(10 ** rng.uniform(-5, -1)) if rng.integers(8) else float(10 ** rng.choice([-13.0, -9.0, 1.0]))

    def arr(scale):
        a = rng.normal(0, 1, shape) * scale
        return a + 1j * rng.normal(0, 1, shape) * scale if dtype == "complex" else a
    x = T.optical_signal(core.degenerate_rows(rng, arr(amp), every=8, rows_only=True), core.degenerate_rows(rng, arr(amp * 10 ** rng.uniform(-2, 0)), every=5, rows_only=True) if noise else None)
    G = float(rng.uniform(0, 40)) if i % 9 else float([0.0, 40.0, 20.0][i // 9 % 3])
    NF = float(rng.uniform(3, 10))
    BW = None if rng.integers(3) or n < 32 else float(rng.uniform(0.05, 0.9)) * fs
    ctx.describe(n=n, n_pol=n_pol, noise=noise, dtype=dtype, G=G, NF=NF, BW=BW, fs=fs, wavelength=wl)
    d0 = core.digest(x.signal, x.noise)
    np.random.seed(int(rng.integers(2 ** 31)))
    with core.quiet():
        y = D.EDFA(x, G, NF, BW)          # edfa.* monitors decide
        y2 = D.EDFA(x, G, NF, BW)
        if G > 0.01:
            ctx.check("edfa.fresh", not np.array_equal(y.noise, y2.noise), "two successive EDFA calls produced the same ASE realisation")
        ctx.check("edfa.signal_deterministic", np.array_equal(y.signal, y2.signal), "EDFA signal part depends on the random state")
        # a second stage fed with the first stage's output (for a real-valued field this is an object whose signal and noise arrays
        # have different dtypes — only amplifiers and attribute assignment produce such inputs): edfa.* monitors decide again
        if i % 3 == 0:
            D.EDFA(y, float(rng.uniform(0, 20)), NF, BW if rng.integers(2) else None)
            xm = T.optical_signal(x.signal.copy(), None)
            xm.noise = (rng.normal(0, 1, x.signal.shape) + 1j * rng.normal(0, 1, x.signal.shape)) * amp * 0.1        # complex noise assigned onto a (possibly real) field
            D.EDFA(xm, G, NF, None)
    ctx.check("input_unchanged", core.digest(x.signal, x.noise) == d0, "EDFA modified its input")
    if i % 50 == 0:
        with core.quiet():
            ctx.raises("errors", TypeError, D.EDFA, T.electrical_signal(np.ones(8)), 10, 5)
            ctx.raises("errors", TypeError, D.EDFA, np.ones(8, complex), 10, 5)
    ctx.case(("gain", n_pol, noise, dtype, round(G / 5), BW is not None, n, fs), sample=dict(n=n, n_pol=n_pol, noise=noise, dtype=dtype, G=G, NF=NF, BW=BW, fs=fs) if i < 5 else None)
    ctx.bin("input", f"n_pol={n_pol},noise={noise},{dtype}")


def w_statistical(ctx, rng, i):
    fs, wl = set_gv(rng)
    N = 2 ** 16 if ctx.tier == "quick" else 2 ** 18
    n_pol = int(rng.integers(1, 3))
    G = float(rng.uniform(3, 40))
    NF = float(rng.uniform(3, 10))
    P = float(10 ** rng.uniform(-6, -3))
    shape = (2, N) if n_pol == 2 else (N,)
    with_noise = bool(i % 2)
    np.random.seed(int(rng.integers(2 ** 31)))
    Pn_in = P * 10 ** rng.uniform(-4, -2)
    x = T.optical_signal(np.sqrt(P / n_pol) * np.ones(shape, complex), np.sqrt(Pn_in / n_pol / 2) * (np.random.randn(*shape) + 1j * np.random.randn(*shape)) if with_noise else None)
    ctx.describe(N=N, n_pol=n_pol, G=G, NF=NF, fs=fs, wavelength=wl, with_noise=with_noise)
    with core.quiet():
        st = np.random.get_state()
        y = D.EDFA(x, G, NF)
        np.random.set_state(st)
        with core.monitor_scope():
            ase = D.EDFA(T.optical_signal(x.signal), G, NF).noise       # pure ASE of the same draw
        y_next = D.EDFA(x, G, NF)
    want = 10 ** (NF / 10) * h_planck * (c_light / wl) * (10 ** (G / 10) - 1) * fs
    q = np.stack([ase[0].real, ase[0].imag, ase[1].real, ase[1].imag])
    tot = float(np.sum(np.mean(np.abs(ase) ** 2, axis=-1)))
    ctx.check("stat.power", abs(tot - want) <= 6 * want * np.sqrt(1 / (2 * N)), f"total ASE power {tot:.6g} W, documented NF*h*f0*(G-1)*fs = {want:.6g} W (ratio {tot / want:.4f})", ratio=tot / want)
    v = q.var(axis=1)
    ctx.check("stat.equal_var", np.all(np.abs(v - want / 4) <= 6 * (want / 4) * np.sqrt(2 / N)), f"the four ASE quadratures do not have equal variance P_ase/4: {v / (want / 4)}")
    ctx.check("stat.zero_mean", np.all(np.abs(q.mean(axis=1)) <= 6 * np.sqrt(want / 4 / N)), "ASE quadratures are not zero-mean")
    cc = np.corrcoef(q)
    off = cc[~np.eye(4, dtype=bool)]
    ctx.check("stat.independent", np.all(np.abs(off) <= 6 / np.sqrt(N)), f"ASE quadratures are correlated (max |rho| = {np.max(np.abs(off)):.4f})")
    # fresh draw: the next call's ASE is uncorrelated with this one
    ase2 = y_next.noise - (np.sqrt(10 ** (G / 10)) * two_rows(x.noise, n_pol) if with_noise else 0)
    rho = abs(np.vdot(ase.ravel(), ase2.ravel())) / np.sqrt(np.vdot(ase.ravel(), ase.ravel()).real * np.vdot(ase2.ravel(), ase2.ravel()).real)
    ctx.check("stat.fresh", rho <= 6 / np.sqrt(2 * N), f"ASE of successive calls is correlated (|rho| = {rho:.4f})")
    # OSNR does not improve
    if with_noise:
        osnr_in = float(np.sum(np.mean(np.abs(x.signal) ** 2, axis=-1)) / np.sum(np.mean(np.abs(x.noise) ** 2, axis=-1)))
        osnr_out = float(np.sum(np.mean(np.abs(y.signal) ** 2, axis=-1)) / np.sum(np.mean(np.abs(y.noise) ** 2, axis=-1)))
        slack = 6 * np.sqrt(2 * want / (10 ** (G / 10) * Pn_in) / N) + 6 / np.sqrt(N)
        ctx.check("stat.osnr", osnr_out <= osnr_in * (1 + slack), f"OSNR increased through the amplifier: in {osnr_in:.6g}, out {osnr_out:.6g}")
    ctx.case(("stat", n_pol, with_noise, round(G / 10), fs, wl), sample=dict(N=N, n_pol=n_pol, G=G, NF=NF, fs=fs, wavelength=wl, measured_over_documented=tot / want) if i < 4 else None)


def w_short_records(ctx, rng, i):
    """The ASE is Gaussian for *every* record length: over K calls on records of 1..5 samples the per-record ASE power must
    fluctuate like a chi-square with 4n degrees of freedom (mean P, variance P^2/(2n)), the pooled quadratures must have Gaussian
    kurtosis and the powers in the two polarisations must be uncorrelated. (A realisation rescaled to its nominal power passes every
    long-record test: the difference is O(1/n).)"""
    fs, wl = set_gv(rng)
    n = [1, 2, 3, 5][i % 4]
    K = 600 if ctx.tier == "quick" else 2000
    n_pol = int(rng.integers(1, 3))
    G, NF = float(rng.uniform(3, 40)), float(rng.uniform(3, 10))
    shape = (2, n) if n_pol == 2 else (n,)
    x = T.optical_signal(np.sqrt(10 ** rng.uniform(-6, -3)) * np.ones(shape, complex))
    np.random.seed(int(rng.integers(2 ** 31)))
    ctx.describe(n=n, K=K, n_pol=n_pol, G=G, NF=NF, fs=fs, wavelength=wl)
    with core.quiet():
        ases = np.array([D.EDFA(x, G, NF).noise for _ in range(K)])           # (K, 2, n)
    want = 10 ** (NF / 10) * h_planck * (c_light / wl) * (10 ** (G / 10) - 1) * fs
    ok_shape = ases.shape == (K, 2, n)
    ctx.check("short.shape", ok_shape, f"EDFA noise of a {n}-sample record has shape {ases.shape[1:]}")
    if ok_shape:
        pk = np.sum(np.mean(np.abs(ases) ** 2, axis=-1), axis=-1)             # per-record total ASE power
        ctx.check("short.mean_power", abs(pk.mean() - want) <= 6 * want * np.sqrt(1 / (2 * n * K)), f"mean ASE power over {K} records of {n} samples: {pk.mean() / want:.4f} x documented")
        rv = pk.var() / (want ** 2 / (2 * n))
        ctx.check("short.power_fluctuation", 0.3 <= rv <= 3.0, f"per-record ASE power of {n}-sample records has variance {rv:.3g} x P^2/(2n) over {K} calls: the realisation is not a free Gaussian draw", ratio=rv)
        q = np.concatenate([ases.real.ravel(), ases.imag.ravel()]) / np.sqrt(want / 4)
        kurt = float(np.mean(q ** 4) / np.mean(q ** 2) ** 2)
        ctx.check("short.gaussian", abs(kurt - 3) <= 6 * np.sqrt(24 / q.size) + 0.05, f"pooled ASE quadratures of {n}-sample records have kurtosis {kurt:.3f} (Gaussian: 3)")
        px, py = np.mean(np.abs(ases[:, 0]) ** 2, axis=-1), np.mean(np.abs(ases[:, 1]) ** 2, axis=-1)
        rho = float(np.corrcoef(px, py)[0, 1])
        ctx.check("short.pol_independent", abs(rho) <= 6 / np.sqrt(K), f"ASE powers of the two polarisations are correlated over {K} records of {n} samples (rho = {rho:.3f})")
    ctx.case(("short", n, n_pol, round(G / 10)), sample=dict(n=n, K=K, n_pol=n_pol, G=G, NF=NF) if i < 4 else None)


def w_two_grids(ctx, rng, i):
    """the same (G, NF) on two grids (fs, f0) and back: the ASE power must follow the grid in force each time."""
    N = 2 ** 15
    G, NF = float(rng.uniform(10, 35)), float(rng.uniform(3, 9))
    grids = [(8e10, 1550e-9), (1.6e10, 1310e-9), (4e11, 1550e-9), (8e10, 850e-9)]
    a, b = (grids[k] for k in rng.choice(len(grids), 2, replace=False))
    np.random.seed(int(rng.integers(2 ** 31)))
    ctx.describe(G=G, NF=NF, grid_sequence=[a, b, a])
    x = T.optical_signal(np.zeros(N, complex))
    for fs, wl in (a, b, a):
        with core.quiet():
            T.gv(sps=8, fs=fs, wavelength=wl)
            y = D.EDFA(x, G, NF)
        want = 10 ** (NF / 10) * h_planck * (c_light / wl) * (10 ** (G / 10) - 1) * fs
        tot = float(np.sum(np.mean(np.abs(y.noise) ** 2, axis=-1)))
        ctx.check("stat.power", abs(tot - want) <= 6 * want * np.sqrt(1 / (2 * N)), f"ASE power {tot:.6g} W vs NF*h*f0*(G-1)*fs = {want:.6g} W on grid fs={fs:.3g}, wavelength={wl:.4g} (sequence {[a, b, a]})", ratio=tot / want)
    # with the optical filter: the same bandwidth in Hz must pass the same ASE power (in W) whatever the simulation grid
    B = 2e9
    pw = []
    for fs, wl in ((4e10, 1550e-9), (1.6e11, 1550e-9), (4e10, 1550e-9)) if i % 2 else ((1.6e11, 1550e-9), (4e10, 1550e-9)):
        with core.quiet():
            T.gv(sps=8, fs=fs, wavelength=wl)
            yb = D.EDFA(T.optical_signal(np.zeros(2 ** 16, complex)), G, NF, B)
        pw.append((fs, float(np.sum(np.mean(np.abs(yb.noise[:, 2000:-2000]) ** 2, axis=-1)))))
    tol = 6 * np.sqrt(max(f for f, _ in pw) / (B * 2 ** 16)) + 0.02
    ctx.check("stat.filtered_power", all(abs(p / pw[0][1] - 1) <= tol for _, p in pw[1:]), f"ASE power behind a {B:.3g} Hz optical filter depends on the sampling grid: {[(f, round(p / pw[0][1], 3)) for f, p in pw]} (tolerance {tol:.3f})")
    ctx.case(("grids", a, b, round(G / 5)), sample=dict(G=G, NF=NF, grid_sequence=[a, b, a]) if i < 2 else None)


def FORM_TWINS():
    import opticomlib.devices as dv
    return [(dv, ["EDFA"])]


WORKLOADS = [
    Workload("gain", w_gain, 2500, 60000, budget=400),
    Workload("statistical", w_statistical, 24, 160, budget=300),
    Workload("two_grids", w_two_grids, 12, 200, budget=300),
    Workload("short_records", w_short_records, 8, 80, budget=300),
]


def classify(v):
    return None
