"""C11 — LPF/BPF are linear zero-phase filters with unit DC gain and -6 dB at cutoff."""
import numpy as np
import scipy.signal as sg

from .. import core
from ..run import Workload

RULE = ("real (LPF) and complex 1/2-pol (BPF) records longer than the edge padding of the order in use, cutoffs in (0.01,0.45)*fs, orders "
        "1..8, fs in {1e9..1e12}, ndarray and container inputs, with and without a noise component; relations: linearity, DC gain, "
        "tone power, -6 dB at cutoff, monotone attenuation (effective response measured from the real filter's impulse response), zero "
        "delay, retH; LPF's fs argument 0.1x..40x the global rate. Non-trivial: record >= 32 samples with non-constant content; distinct by (filter, order, cutoff bin, fs, n_pol, length bin, input form).")
ASSUMPTIONS = ["the statement fixes neither the filter family nor the edge treatment: signal/noise/polarisation clauses compare the library with itself, "
               "spectral clauses are measured on the real filter's own impulse/tone responses; only retH is compared with scipy's sosfreqz of a Bessel 'mag' prototype",
               "'-6.0 dB at cutoff' accepted within +-0.05 dB; measured away from the record edges on records of >= 4096 samples"]
TOLERANCES = {"postcondition_rtol": 1e-9, "cutoff_dB": 0.05, "linearity_rtol": 1e-9}
SHARDS = {"quick": 4}
MIN_CHECKS = {"lpf.post": 300, "bpf.post": 300, "lpf.noise": 100, "bpf.noise": 100, "linear": 100, "cutoff": 60, "monotone": 60, "zero_delay": 60, "retH": 60, "fs_argument": 100}

D = T = None


def relerr(a, b):
    a, b = np.asarray(a), np.asarray(b)
    if a.shape != b.shape:
        return np.inf
    return float(np.max(np.abs(a - b))) / max(float(np.max(np.abs(b))), 1e-300)


def ref_sos(cut, n, fs):
    return sg.bessel(N=n, Wn=cut, btype="low", fs=fs, output="sos", norm="mag")


def padlen(n):
    sos = ref_sos(0.1, n, 1.0)
    return 3 * (2 * sos.shape[0] + 1 - min(int((sos[:, 2] == 0).sum()), int((sos[:, 5] == 0).sum())))


def setup(ctx):
    global D, T
    import opticomlib.devices as dv
    import opticomlib.typing as ty
    D, T = dv, ty

    # The statement does not pin the filter family or the edge treatment, so the postconditions compare the library with
    # *itself*: the noise must come out as if it had been passed as a signal, every polarisation as if filtered alone.
    def lpf_post(orig):
        def wrapper(input, BW, n=4, fs=None, retH=False):
            r = orig(input, BW, n, fs, retH)
            if core.in_monitor():
                return r
            with core.monitor_scope(), core.quiet():
                ctx.call("lpf.post")
                out = r[0] if retH else r
                if isinstance(input, T.electrical_signal):
                    s, nz = input.signal, input.noise
                else:
                    s, nz = np.asarray(input), None
                ok = isinstance(out, T.electrical_signal) and out.signal.shape == s.shape
                ctx.check("lpf.post", ok, "LPF changed class or length")
                if ok and not (np.iscomplexobj(s) and np.any(np.imag(s) != 0)):
                    if nz is not None:
                        alone = orig(T.electrical_signal(np.real(nz)), BW, n, fs)
                        sig_alone = orig(T.electrical_signal(np.real(s)), BW, n, fs)
                        ctx.check("lpf.noise", out.noise is not None and relerr(out.noise, alone.signal) <= 1e-9 and relerr(out.signal, sig_alone.signal) <= 1e-9,
                                  "LPF: noise component is not filtered by the same operator as the signal (or the signal depends on the noise)")
                    else:
                        ctx.check("lpf.noise", out.noise is None, "LPF invented a noise component")
            return r
        return wrapper

    def bpf_post(orig):
        def wrapper(input, BW, n=4):
            r = orig(input, BW, n)
            if core.in_monitor():
                return r
            with core.monitor_scope(), core.quiet():
                ctx.call("bpf.post")
                ok = isinstance(r, T.optical_signal) and r.signal.shape == input.signal.shape and r.n_pol == input.n_pol
                ctx.check("bpf.post", ok, "BPF changed class / polarisation layout / length")
                if ok:
                    rows_in = input.signal if input.signal.ndim == 2 else input.signal[None]
                    rows_out = r.signal if r.signal.ndim == 2 else r.signal[None]
                    for k in range(rows_in.shape[0]):
                        alone = orig(T.optical_signal(rows_in[k]), BW, n)
                        ctx.check("bpf.rows", relerr(rows_out[k], alone.signal) <= 1e-9, f"BPF: polarisation {k} is not filtered as it would be alone")
                    if input.noise is not None:
                        nin = input.noise if input.noise.ndim == 2 else input.noise[None]
                        nout = None if r.noise is None else (r.noise if r.noise.ndim == 2 else r.noise[None])
                        good = nout is not None and all(relerr(nout[k], orig(T.optical_signal(nin[k]), BW, n).signal) <= 1e-9 for k in range(nin.shape[0]))
                        ctx.check("bpf.noise", good, "BPF: noise component is not filtered by the same operator as the signal")
                    else:
                        ctx.check("bpf.noise", r.noise is None, "BPF invented a noise component")
            return r
        return wrapper

    core.attach(dv, "LPF", lpf_post)
    core.attach(dv, "BPF", bpf_post)


def set_fs(rng):
    fs = float(rng.choice([1e9, 1.6e10, 8e10, 1e12]))
    if rng.integers(6) == 0:      # "all sampling rates": audio-like and sub-Hz-resolution grids, where a cutoff is a small non-integer number of Hz
        fs = float(rng.choice([2.0, 16.0, 80.0, 1000.0, 44100.0, 1e15]))
    with core.quiet():
        if rng.integers(5) == 0:      # a sampling rate that is not an integer multiple of the slot rate: everything follows gv.fs, not sps*R
            T.gv(R=fs / float(rng.choice([2.5, 3.3, 7.6])), fs=fs)
        else:
            T.gv(sps=int(rng.choice([4, 8, 16])), fs=fs)
    return float(T.gv.fs)


def w_basic(ctx, rng, i):
    """postconditions + linearity + DC gain + container forms, random content."""
    fs = set_fs(rng)
    order = int(rng.integers(1, 9))
    which = "lpf" if i % 2 == 0 else "bpf"
    cut = float(rng.uniform(0.01, 0.45)) * fs
    n = core.long_or(rng, i, int(rng.choice([padlen(order) + 2, 32, 33, 100, 257, 1024, 4096])), every=32, huge=False)     # (records of millions of samples have their own workload `huge`: a dozen filter calls on one here ran into the 60 s watchdog on a loaded machine)
    n = max(n, padlen(order) + 2)
    n_pol = 1 if which == "lpf" else int(rng.integers(1, 3))
    noise = bool(rng.integers(2))
    shape = (2, n) if n_pol == 2 else (n,)
    sc = 10 ** rng.uniform(-4, 1) if (i // 2) % 4 else 10 ** rng.uniform(-13, -7)     # down to fields / noise of 1e-13 (homogeneity: nothing may depend on an absolute scale)

    def rnd():
        a = rng.normal(0, 1, shape) * sc
        return a if which == "lpf" else a + 1j * rng.normal(0, 1, shape) * sc
    x, y = core.degenerate_rows(rng, rnd(), every=4), rnd()      # e.g. the same field in both polarisations with independent noise in each
    a_, b_ = float(rng.normal(0, 2)), float(rng.normal(0, 2))
    ctx.describe(which=which, order=order, cut_over_fs=cut / fs, fs=fs, n=n, n_pol=n_pol, noise=noise)
    with core.quiet():
        if which == "lpf":
            F = lambda v, nz=None: D.LPF(T.electrical_signal(v, nz), cut, order)
            fx, fy = F(x, rnd() if noise else None), F(y)
            fxy = F(a_ * x + b_ * y)
            fa = D.LPF(x.copy(), cut, order)                        # ndarray input
            ctx.check("forms", isinstance(fa, T.electrical_signal) and relerr(fa.signal, fx.signal) <= 1e-12, "LPF(ndarray) != LPF(electrical_signal)")
            # integer / boolean sample data are real inputs too (e.g. a kron of bits): same result as the same values in float
            xi = rng.integers(-9, 10, n)
            fi_arr = D.LPF(xi.copy(), cut, order)
            fi_el = D.LPF(T.electrical_signal(xi.copy(), rng.integers(-3, 4, n) if noise else None), cut, order)
            ff = D.LPF(xi.astype(float), cut, order)
            ctx.check("forms", relerr(fi_arr.signal, ff.signal) <= 1e-12 and relerr(fi_el.signal, ff.signal) <= 1e-12, "LPF of integer-valued samples differs from LPF of the same values as floats (ndarray / container)")
            xb = rng.integers(0, 2, n).astype(bool)
            ctx.check("forms", relerr(D.LPF(xb.copy(), cut, order).signal, D.LPF(xb.astype(float), cut, order).signal) <= 1e-12, "LPF of boolean samples differs from LPF of the same values as floats")
            fe = D.LPF(T.electrical_signal(x), cut, order, fs=fs)   # explicit fs equal to gv.fs
            ctx.check("forms", relerr(fe.signal, fx.signal) <= 1e-12, "LPF(fs=gv.fs) != LPF(fs=None)")
            const = float(rng.normal(0, 3))
            fc = D.LPF(np.full(n, const), cut, order)
        else:
            cutb = 2 * cut
            F = lambda v, nz=None: D.BPF(T.optical_signal(v, nz), cutb, order)
            fx, fy = F(x, rnd() if noise else None), F(y)
            fxy = F(a_ * x + b_ * y)
            const = complex(rng.normal(0, 3), rng.normal(0, 3))
            fc = D.BPF(T.optical_signal(np.full(shape, const)), cutb, order)
            xi = rng.integers(-9, 10, shape)
            ctx.check("forms", relerr(D.BPF(T.optical_signal(xi.copy()), cutb, order).signal, D.BPF(T.optical_signal(xi.astype(complex)), cutb, order).signal) <= 1e-12, "BPF of an integer-valued field differs from BPF of the same values as complex")
            if n_pol == 2:   # rows are filtered independently: row-swapped input gives row-swapped output
                fsw = F(x[::-1].copy())
                ctx.check("rows_independent", relerr(fsw.signal, fx.signal[::-1]) <= 1e-12, "BPF rows are not filtered independently")
                f1 = D.BPF(T.optical_signal(x[0]), cutb, order)
                ctx.check("rows_independent", relerr(f1.signal, fx.signal[0]) <= 1e-12, "BPF of a 2-pol field differs from BPF of its x row alone")
        ctx.check("linear", relerr(fxy.signal, a_ * fx.signal + b_ * fy.signal) <= 1e-9, f"F(a x + b y) != a F(x) + b F(y) (rel err {relerr(fxy.signal, a_ * fx.signal + b_ * fy.signal):.3g})")
        ctx.check("dc_gain", np.allclose(fc.signal, const, rtol=1e-9, atol=1e-12 * abs(const)), f"constant input {const!r} does not pass unchanged (max dev {np.max(np.abs(fc.signal - const)):.3g})")
    ctx.case(("basic", which, order, round(cut / fs, 2), fs, n_pol, n, noise), nontrivial=n >= 32,
             sample={"filter": which, "order": order, "cutoff/fs": cut / fs, "fs": fs, "n": n, "n_pol": n_pol, "noise": noise} if i < 4 else None)
    ctx.bin("filter", which)
    ctx.bin("order", order)


def w_response(ctx, rng, i):
    """effective response of the real filter measured from a centred impulse on a long record: -6 dB at cutoff, monotone, zero delay,
    tone power never increases; retH (LPF)."""
    fs = set_fs(rng)
    order = int(rng.integers(1, 9))
    which = "lpf" if i % 2 == 0 else "bpf"
    frac = float(rng.uniform(0.01, 0.45)) if i % 5 else float([0.0101, 0.449, 0.25, 0.1][i // 5 % 4])
    cut = frac * fs
    N = int([8192, 8191, 4097, 8192][i % 4])      # odd lengths: fftshift and ifftshift differ there
    imp = np.zeros(N)
    imp[N // 2] = 1.0
    ctx.describe(which=which, order=order, cut_over_fs=frac, fs=fs)
    with core.quiet():
        if which == "lpf":
            out, H = D.LPF(T.electrical_signal(imp), cut, order, retH=True)
            h = out.signal
        else:
            h = D.BPF(T.optical_signal(imp + 0j), 2 * cut, order).signal
            H = None
    # zero delay: response to a symmetric pulse is symmetric about the same instant
    c = N // 2
    L = N // 2 - 1
    sym = np.max(np.abs(h[c - np.arange(1, L)] - h[c + np.arange(1, L)])) / max(np.max(np.abs(h)), 1e-300)
    ctx.check("zero_delay", sym <= 1e-9 and int(np.argmax(np.abs(h))) == c, f"impulse response is not symmetric about the input instant (asym {sym:.3g}, peak at {int(np.argmax(np.abs(h)))} vs {c})")
    G = np.abs(np.fft.fft(np.roll(h, -c)))             # effective amplitude response |H|^2 of the forward-backward filter
    f = np.fft.fftfreq(N, 1 / fs)
    pos = np.argsort(np.abs(f), kind="stable")
    g_sorted = G[pos]
    floor = 1e-9
    above = g_sorted > floor
    d = np.diff(g_sorted)
    ctx.check("monotone", np.all(d[above[1:]] <= 1e-9), f"attenuation does not grow monotonically with |f| (largest rise {d[above[1:]].max():.3g})")
    ctx.check("dc_gain", abs(G[0] - 1) <= 1e-6, f"effective DC gain {G[0]!r} != 1")
    ctx.check("tone_power", np.all(G <= 1 + 1e-9), f"gain exceeds one at some frequency (max {G.max()!r})")
    # -6 dB at the cutoff: evaluate by filtering a real tone placed exactly at the cutoff
    n = np.arange(N)
    with core.quiet():
        if which == "lpf":
            tone = np.cos(2 * np.pi * frac * n + rng.uniform(0, 6))
            y = D.LPF(tone, cut, order).signal
            mid = slice(N // 4, 3 * N // 4)
            att = 10 * np.log10(np.mean(y[mid] ** 2) / np.mean(tone[mid] ** 2))
            atts = [att]
        else:
            atts = []
            for sgn in (1, -1):
                tone = np.exp(2j * np.pi * sgn * frac * n)
                y = D.BPF(T.optical_signal(tone), 2 * cut, order).signal
                mid = slice(N // 4, 3 * N // 4)
                atts.append(10 * np.log10(np.mean(np.abs(y[mid]) ** 2) / 1.0))
    for att in atts:
        ctx.check("cutoff", abs(att + 6.0206) <= 0.05, f"{which} order {order}: tone at the cutoff ({frac:.4f} fs) attenuated by {-att:.3f} dB, expected 6.0 dB")
    if H is not None:
        sos = ref_sos(cut, order, fs)
        _, Href = sg.sosfreqz(sos, worN=np.fft.fftfreq(N, 1 / fs), fs=fs)
        Hs = np.fft.ifftshift(np.asarray(H))
        ctx.check("retH", Hs.shape == Href.shape and relerr(Hs, Href) <= 1e-9, "LPF retH is not the single-pass prototype on the fft frequency grid")
        ctx.check("retH", np.max(np.abs(np.abs(Hs) ** 2 - G)) <= 1e-6, "LPF |retH|^2 differs from the effective response of the filter applied")
    ctx.case(("resp", which, order, round(frac, 3), fs), sample={"filter": which, "order": order, "cutoff/fs": frac, "fs": fs, "att_dB": [float(a) for a in atts]} if i < 4 else None)


def w_tones(ctx, rng, i):
    """stationary tones at random frequencies: power in the central half never increases."""
    fs = set_fs(rng)
    order = int(rng.integers(1, 9))
    which = "lpf" if i % 2 == 0 else "bpf"
    frac = float(rng.uniform(0.01, 0.45))
    ftone = float(rng.uniform(0.0, 0.5))
    N = 2048
    n = np.arange(N)
    amp = 10 ** rng.uniform(-3, 1)
    ctx.describe(which=which, order=order, cut_over_fs=frac, tone_over_fs=ftone)
    mid = slice(N // 4, 3 * N // 4)
    with core.quiet():
        if which == "lpf":
            x = amp * np.cos(2 * np.pi * ftone * n + rng.uniform(0, 6))
            y = D.LPF(x, frac * fs, order).signal
        else:
            x = amp * np.exp(2j * np.pi * ftone * rng.choice([-1, 1]) * n)
            xx = np.stack([x, 0.5 * x[::-1]]) if rng.integers(2) else x
            y = D.BPF(T.optical_signal(xx), 2 * frac * fs, order).signal
            x = xx
    pin = np.mean(np.abs(x[..., mid]) ** 2, axis=-1)
    pout = np.mean(np.abs(y[..., mid]) ** 2, axis=-1)
    ctx.check("tone_power", np.all(pout <= pin * (1 + 1e-6) + 1e-300), f"tone power increased: {pout} > {pin}")
    ctx.case(("tone", which, order, round(frac, 2), round(ftone, 2)))


def w_fs_change(ctx, rng, i):
    """the same cutoff in Hz and the same order at two sampling rates in one process: the -6 dB point must follow the rate in force."""
    order = int(rng.integers(1, 9))
    which = "lpf" if i % 2 == 0 else "bpf"
    cut = float(rng.choice([1e9, 2.5e9, 4e9]))
    rates = [f for f in (1.6e10, 3.2e10, 8e10, 1.6e11) if 0.011 <= cut / f <= 0.44]
    rng.shuffle(rates)
    N = 8192
    n = np.arange(N)
    mid = slice(N // 4, 3 * N // 4)
    atts = []
    for fs in rates[:3]:
        with core.quiet():
            T.gv(sps=8, fs=fs)
            frac = cut / fs
            if which == "lpf":
                tone = np.cos(2 * np.pi * frac * n)
                y = D.LPF(T.electrical_signal(tone), cut, order).signal
                atts.append((fs, 10 * np.log10(np.mean(y[mid] ** 2) / np.mean(tone[mid] ** 2))))
            else:
                tone = np.exp(2j * np.pi * frac * n)
                y = D.BPF(T.optical_signal(tone), 2 * cut, order).signal
                atts.append((fs, 10 * np.log10(np.mean(np.abs(y[mid]) ** 2))))
    ctx.describe(which=which, order=order, cutoff_Hz=cut, rates=[a[0] for a in atts])
    for fs, att in atts:
        ctx.check("cutoff", abs(att + 6.0206) <= 0.05, f"{which} order {order}, cutoff {cut:.3g} Hz: attenuation at the cutoff is {-att:.3f} dB at fs={fs:.3g} (sampling rate changed within the process: {[a[0] for a in atts]})")
    ctx.case(("fschg", which, order, cut, tuple(a[0] for a in atts)), sample=dict(filter=which, order=order, cutoff_Hz=cut, attenuation_dB=[(a[0], float(a[1])) for a in atts]) if i < 2 else None)


def w_explicit_fs(ctx, rng, i):
    """LPF's own `fs` argument ("all sampling rates"): with the global grid on rate A, LPF(x, BW, n, fs=B) must be the filter of
    rate B — same samples as LPF(x, BW, n) computed while the global rate is B, -6 dB at BW measured on the B grid, retH on the B
    grid — for B below and above A and for cutoffs anywhere in (0.01, 0.45)*B (also beyond A/2)."""
    fsA = set_fs(rng)
    ratio = float([0.1, 0.25, 0.5, 2.0, 5.0, 40.0, 3.7, 1.0][i % 8])
    fsB = fsA * ratio
    order = int(rng.integers(1, 9))
    frac = float(rng.uniform(0.01, 0.45)) if i % 3 else float([0.0101, 0.449, 0.3][i // 3 % 3])
    cut = frac * fsB
    N = int(rng.choice([4096, 4095, 2048]))
    n = np.arange(N)
    x = rng.normal(0, 1, N)
    tone = np.cos(2 * np.pi * frac * n + rng.uniform(0, 6))
    kw = bool(rng.integers(2))
    ctx.describe(fs_global=fsA, fs_argument=fsB, order=order, cut_over_fs_argument=frac, N=N, keyword=kw)
    mid = slice(N // 4, 3 * N // 4)
    with core.quiet():
        ya = D.LPF(T.electrical_signal(x), cut, order, fs=fsB) if kw else D.LPF(T.electrical_signal(x), cut, order, fsB)
        yt = D.LPF(tone.copy(), cut, order, fs=fsB)
        out, H = D.LPF(T.electrical_signal(x), cut, order, fsB, True)
        sps = T.gv.sps
        T.gv(sps=sps, fs=fsB)
        yb = D.LPF(T.electrical_signal(x), cut, order)
        T.gv(sps=sps, fs=fsA)
    ctx.check("fs_argument", ya.signal.shape == yb.signal.shape and relerr(ya.signal, yb.signal) <= 1e-9, f"LPF(fs={fsB:.3g}) on a global grid of {fsA:.3g} differs from LPF on a global grid of {fsB:.3g} (rel err {relerr(ya.signal, yb.signal):.3g})")
    ctx.check("fs_argument", relerr(out.signal, ya.signal) <= 1e-12, "LPF(..., retH=True) filters differently from LPF(...)")
    att = 10 * np.log10(np.mean(yt.signal[mid] ** 2) / np.mean(tone[mid] ** 2))
    ctx.check("cutoff", abs(att + 6.0206) <= 0.05, f"LPF order {order} with fs argument {fsB:.3g} (global {fsA:.3g}): tone at the cutoff attenuated by {-att:.3f} dB, expected 6.0 dB")
    sos = ref_sos(cut, order, fsB)
    _, Href = sg.sosfreqz(sos, worN=np.fft.fftfreq(N, 1 / fsB), fs=fsB)
    Hs = np.fft.ifftshift(np.asarray(H))
    ctx.check("retH", Hs.shape == Href.shape and relerr(Hs, Href) <= 1e-9, "LPF retH with an fs argument is not the single-pass prototype on that rate's frequency grid")
    ctx.case(("xfs", ratio, order, round(frac, 2), fsA, N), sample=dict(fs_global=fsA, fs_argument=fsB, order=order, cutoff_over_fs=frac, att_dB=float(att)) if i < 3 else None)
    ctx.bin("fs_argument_ratio", ratio)


def w_huge(ctx, rng, i):
    """records of millions of samples with an odd count (beyond any internal switch to a block- or FFT-based path): length, layout and
    noise presence preserved (postconditions), a constant passes unchanged, the tone at the cutoff loses 6 dB."""
    fs = set_fs(rng)
    which = "lpf" if i % 2 == 0 else "bpf"
    N = int([2 ** 22 + 1, 2 ** 21 + 3, 2 ** 23 + 1, 2 ** 22 + 2][(i // 2) % (2 if ctx.tier == "quick" else 4)])
    order = int(rng.integers(1, 9))
    frac = float(rng.uniform(0.02, 0.4))
    n = np.arange(N)
    ctx.describe(which=which, N=N, order=order, cut_over_fs=frac, fs=fs)
    mid = slice(N // 4, 3 * N // 4)
    with core.quiet():
        if which == "lpf":
            tone = np.cos(2 * np.pi * frac * n)
            y = D.LPF(T.electrical_signal(tone, np.ones(N)), frac * fs, order)        # the noise component is a constant: must pass unchanged
            ok_len = y.signal.shape == (N,) and y.noise is not None and y.noise.shape == (N,)
            att = 10 * np.log10(np.mean(y.signal[mid] ** 2) / 0.5) if ok_len else np.nan
            const_dev = float(np.max(np.abs(y.noise[mid] - 1.0))) if ok_len else np.nan
        else:
            tone = np.exp(2j * np.pi * frac * n)
            y = D.BPF(T.optical_signal(tone, np.ones(N, complex)), 2 * frac * fs, order)
            ok_len = y.signal.shape == (N,) and y.noise is not None and y.noise.shape == (N,)
            att = 10 * np.log10(np.mean(np.abs(y.signal[mid]) ** 2)) if ok_len else np.nan
            const_dev = float(np.max(np.abs(y.noise[mid] - 1.0))) if ok_len else np.nan
    ctx.check("huge.length", ok_len, f"{which} of a record of {N} samples returned signal {getattr(y.signal, 'shape', None)} / noise {getattr(y.noise, 'shape', None)}")
    if ok_len:
        ctx.check("cutoff", abs(att + 6.0206) <= 0.05, f"{which} order {order} on {N} samples: tone at the cutoff attenuated by {-att:.3f} dB, expected 6.0 dB")
        ctx.check("dc_gain", const_dev <= 1e-6, f"{which} on {N} samples: a constant component does not pass unchanged (max dev {const_dev:.3g})")
    ctx.case(("huge", which, N, order), sample=dict(which=which, N=N, order=order) if i < 2 else None)


def w_errors(ctx, rng, i):
    with core.quiet():
        ctx.probe("bpf.electrical_input", D.BPF, T.electrical_signal(np.ones(40)), 1e9)        # (probe: the statement has no rejection clause)
        ctx.probe("lpf.list_input", D.LPF, [1.0] * 40, 1e9)
    ctx.case(("err", i))


def FORM_TWINS():
    import opticomlib.devices as dv
    return [(dv, ["LPF", "BPF"])]


WORKLOADS = [
    Workload("basic", w_basic, 1200, 80000),
    Workload("response", w_response, 200, 20000),
    Workload("tones", w_tones, 300, 30000),
    Workload("fs_change", w_fs_change, 60, 3000),
    Workload("errors", w_errors, 2, 10),
    Workload("explicit_fs", w_explicit_fs, 160, 8000),
    Workload("huge", w_huge, 4, 16, budget=600),
]


def classify(v):
    return None
