"""C01 — signal containers keep their shape/noise contract; operands are never touched.

M1  icontract class invariant on electrical_signal / optical_signal (fires at entry/exit of every public method).
M2  operator wrappers: operands write-protected during the call, digests before/after, no shared memory, class/n_pol/len rules.
M3  reference model: plain (signal, noise) array pair with numpy broadcasting, run alongside every generated program.
"""
import itertools

import icontract
import warnings
import numpy as np

from .. import core
from ..run import Workload

RULE = ("(a) small-scope exhaustive: classes {electrical, optical 1-pol, optical 2-pol} x lengths {1,2,3,5,7} x dtypes {int,float,complex} "
        "x noise on {neither,left,right,both} x operand kinds {same-class object (equal length / length 1), int, float, complex, list, "
        "tuple, str, ndarray, numpy scalar} x {+,-,*, reflected} and 9 slice forms each; (b) random expression trees of depth <= 6 over "
        "{+,-,*,slice,copy,transform,apply} with leaves of lengths {1,2,odd,prime,4096,10^5}; (c) constructor forms incl. rejected ones. "
        "Non-trivial: >= 2 samples or broadcasting, and noise / 2-pol / reflected / container operand involved; distinct by "
        "(class, n_pol, lengths, dtypes, noise pattern, op sequence, operand kinds, slice forms).")
ASSUMPTIONS = ["unspecified and therefore accepted: left operand of length 1 with a longer right operand (ValueError or broadcast); values and "
               "noise presence produced by '*'; mixed one/two-polarisation same-class operands (not generated); numpy-integer indices; empty slices (not generated)",
               "container operands (list/tuple/str/ndarray) combine with a two-polarisation object by numpy broadcasting (same addend in both rows)",
               "total fields compared at rtol 1e-12 of the largest magnitude (exact for integer data)"]
MIN_CHECKS = {"inv.shape": 20000, "op.operands_unchanged": 3000, "model.total": 3000, "model.noise_presence": 3000, "slice.values": 500, "ctor.contract": 100}
SHARDS = {"quick": 4}

T = None
_ctx = None


# ---- M1 ----------------------------------------------------------------------------------
def contract_of(obj):
    """None if obj satisfies the container contract, else a message."""
    s = getattr(obj, "signal", None)
    n = getattr(obj, "noise", None)
    if not isinstance(s, np.ndarray):
        return f"signal is {type(s).__name__}, not ndarray"
    if s.size < 1:
        return f"empty signal {s.shape}"
    if isinstance(obj, T.optical_signal):
        npol = getattr(obj, "n_pol", None)
        if npol == 1:
            if s.ndim != 1:
                return f"n_pol=1 but signal shape {s.shape}"
        elif npol == 2:
            if s.ndim != 2 or s.shape[0] != 2:
                return f"n_pol=2 but signal shape {s.shape}"
        else:
            return f"n_pol={npol!r}"
    else:
        if s.ndim != 1:
            return f"electrical signal shape {s.shape}"
    if n is not None:
        if not isinstance(n, np.ndarray):
            return f"noise is {type(n).__name__}"
        if n.shape != s.shape:
            return f"noise shape {n.shape} != signal shape {s.shape}"
    return None


def inv_shape(self):
    if _ctx is not None and not core.in_monitor():
        msg = contract_of(self)
        _ctx.check("inv.shape", msg is None, f"{type(self).__name__} breaks the container contract: {msg}")
    return True


class ContractBroken(Exception):
    pass


OPS = ["__add__", "__radd__", "__sub__", "__rsub__", "__mul__", "__rmul__", "__getitem__", "copy", "__call__", "apply"]


def setup(ctx):
    global T, _ctx
    import opticomlib.typing as ty
    T, _ctx = ty, ctx
    assert icontract.invariant(inv_shape, error=ContractBroken)(ty.electrical_signal) is ty.electrical_signal
    assert icontract.invariant(inv_shape, error=ContractBroken)(ty.optical_signal) is ty.optical_signal

    def wrap(cls, name):
        def make(orig):
            def wrapper(self, *a, **k):
                if core.in_monitor():
                    return orig(self, *a, **k)
                objs = [self] + [x for x in a if isinstance(x, T.electrical_signal)]
                arrs = [x for o in objs for x in (o.signal, o.noise) if x is not None] + [x for x in a if isinstance(x, np.ndarray)]
                before = [core.digest(x) for x in arrs]
                shapes = [(o.signal.shape, None if o.noise is None else o.noise.shape, getattr(o, "n_pol", None), id(o.signal), id(o.noise) if o.noise is not None else None) for o in objs]
                try:
                    with core.readonly(*arrs):
                        r = orig(self, *a, **k)
                except ValueError as e:
                    if "read-only" in str(e) or "readonly" in str(e):
                        ctx.check("op.operands_unchanged", False, f"{type(self).__name__}.{name} wrote into an operand buffer: {e}")
                    raise
                ctx.call("op")
                with core.monitor_scope():
                    after = [core.digest(x) for x in arrs]
                    shapes2 = [(o.signal.shape, None if o.noise is None else o.noise.shape, getattr(o, "n_pol", None), id(o.signal), id(o.noise) if o.noise is not None else None) for o in objs]
                    ctx.check("op.operands_unchanged", before == after and shapes == shapes2, f"{type(self).__name__}.{name} changed an operand")
                    if isinstance(r, T.electrical_signal):
                        ctx.check("op.new_object", all(r is not o for o in objs), f"{name} returned one of its operands")
                        ctx.check("op.same_class", type(r) is type(self), f"{type(self).__name__}.{name} returned a {type(r).__name__}")
                        ra = [x for x in (r.signal, r.noise) if x is not None]
                        ctx.check("op.no_alias", not any(np.shares_memory(x, y) for x in ra for y in arrs) and (len(ra) < 2 or not np.shares_memory(ra[0], ra[1])),
                                  f"{type(self).__name__}.{name} result shares memory with an operand")
                return r
            return wrapper
        if name in cls.__dict__:
            core.attach_method(cls, name, make)

    for n in OPS:
        wrap(ty.electrical_signal, n)
        wrap(ty.optical_signal, n)


# ---- M3: reference model -----------------------------------------------------------------
class Model:
    __slots__ = ("cls", "S", "N", "scale")

    def __init__(self, cls, S, N, scale=0.0):
        self.cls, self.S, self.N = cls, np.array(S), None if N is None else np.array(N)
        self.scale = scale        # magnitude of the operands a sum/difference was formed from (rounding scales with them, not with the result)

    @property
    def total(self):
        return self.S if self.N is None else self.S + self.N

    @property
    def length(self):
        return self.S.shape[-1]

    @property
    def n_pol(self):
        return None if self.cls == "el" else self.S.ndim


def to_model_operand(other):
    """(total-field array, has_noise, length) of an operand as a plain array."""
    if isinstance(other, Model):
        return other.total, other.N is not None, other.length, other.N
    if isinstance(other, str):
        toks = other.replace(",", " ").split()
        arr = np.array([complex(t.replace("i", "j")) if ("j" in t or "i" in t) else (float(t) if "." in t else int(t)) for t in toks])
    else:
        arr = np.array(other)
    if arr.ndim == 0:
        arr = arr[None]
    return arr, False, arr.shape[-1], None


def model_addsub(m, other, sign, reflected):
    """returns ('ok', Model) | ('valueerror',) | ('either', Model)"""
    t2, has2, len2, n2 = to_model_operand(other)
    len1 = m.length
    if len1 != len2 and len1 != 1 and len2 != 1:
        return ("valueerror",)
    if reflected:
        tot = t2 - m.total if sign < 0 else t2 + m.total
    else:
        tot = m.total + sign * t2
    has = m.N is not None or has2
    status = "either" if (len1 == 1 and len2 > 1) else "ok"
    mag = max(float(np.max(np.abs(m.total))), float(np.max(np.abs(t2))) if np.size(t2) else 0.0)
    out = Model(m.cls, tot, np.zeros_like(tot) if has else None, scale=mag)   # split between S and N is not fixed by the property
    return (status, out)


def real_to_model(x):
    return Model("el" if type(x) is T.electrical_signal else "opt", x.signal, x.noise)


def compare(ctx, x, m, what, check_noise=True):
    """real object x against model m; returns False on mismatch."""
    want_cls = T.electrical_signal if m.cls == "el" else T.optical_signal
    ok = ctx.check("model.class", type(x) is want_cls, f"{what}: result class {type(x).__name__}, expected {want_cls.__name__}")
    if not ok:
        return False
    msg = contract_of(x)
    if not ctx.check("model.contract", msg is None, f"{what}: {msg}"):
        return False
    ok = ctx.check("model.npol_len", getattr(x, "n_pol", None) == m.n_pol and x.len() == m.length and len(x) == m.length and x.signal.shape == m.S.shape,
                   f"{what}: n_pol/len {getattr(x, 'n_pol', None)}/{x.len()} shape {x.signal.shape}, model {m.n_pol}/{m.length} shape {m.S.shape}")
    if not ok:
        return False
    if check_noise:
        ok = ctx.check("model.noise_presence", (x.noise is not None) == (m.N is not None), f"{what}: noise {'present' if x.noise is not None else 'absent'}, model says {'present' if m.N is not None else 'absent'}") and ok
    tot = x.signal + (x.noise if x.noise is not None else 0)
    want = m.total
    scale = max(float(np.max(np.abs(want))), float(getattr(m, "scale", 0.0)), 1e-300)
    exact = np.issubdtype(np.asarray(want).dtype, np.integer)
    good = np.array_equal(tot, want) if exact else bool(np.all(np.abs(tot - want) <= 1e-12 * scale))
    ok = ctx.check("model.total", good, f"{what}: total field differs from the array-pair model", got=tot, want=want) and ok
    return ok


# ---- generators --------------------------------------------------------------------------
_BIG = [False]      # set by w_big_ints: integer data that float64 cannot hold
BIG_VALUES = np.array([2 ** 53 + 1, -(2 ** 53 + 1), 2 ** 53 + 3, 2 ** 60 + 1, -(2 ** 60 + 7), 2 ** 57 + 5, 3, -1])


def rand_arr(rng, shape, dtype):
    if dtype == "int":
        if _BIG[0]:
            return BIG_VALUES[rng.integers(BIG_VALUES.size, size=shape)]
        return rng.integers(-9, 10, shape)
    a = np.round(rng.normal(0, 2, shape), 3)
    if dtype == "complex":
        a = a + 1j * np.round(rng.normal(0, 2, shape), 3)
    return a


def make_obj(rng, cls, n, dtype, noise):
    shape = (2, n) if cls == "opt2" else (n,)
    s = core.degenerate_rows(rng, rand_arr(rng, shape, dtype), every=8, rows_only=True)
    nz = core.degenerate_rows(rng, rand_arr(rng, shape, dtype), every=5, rows_only=True) if noise else None      # e.g. noise in one polarisation only
    obj = T.electrical_signal(s, nz) if cls == "el" else T.optical_signal(s, nz)
    return obj, Model("el" if cls == "el" else "opt", s, nz)


def fmt_num(v):
    if isinstance(v, (complex, np.complexfloating)):
        return f"{v.real:.3f}{v.imag:+.3f}j"
    if isinstance(v, (float, np.floating)):
        return f"{v:.3f}"
    return str(int(v))


def make_operand(rng, kind, cls, n, dtype, noise):
    """returns (real operand, model operand)"""
    if kind == "obj":
        return make_obj(rng, cls, n, dtype, noise)
    if kind == "obj1":
        return make_obj(rng, cls, 1, dtype, noise)
    if kind == "int":
        v = int(BIG_VALUES[int(rng.integers(BIG_VALUES.size))]) if _BIG[0] else int(rng.integers(-9, 10))
        return v, v
    if kind == "float":
        v = float(np.round(rng.normal(0, 2), 3))
        return v, v
    if kind == "complex":
        v = complex(np.round(rng.normal(0, 2), 3), np.round(rng.normal(0, 2), 3))
        return v, v
    if kind == "npscalar" and _BIG[0]:
        v = np.int64(BIG_VALUES[int(rng.integers(BIG_VALUES.size))])
        return v, v
    if kind == "npscalar":
        v = [np.float64(np.round(rng.normal(0, 2), 3)), np.int64(rng.integers(-9, 10)), np.complex128(complex(1.5, -2.0))][int(rng.integers(3))]
        return v, v
    a = rand_arr(rng, (n,), dtype)
    if kind == "list":
        return a.tolist(), a
    if kind == "tuple":
        return tuple(a.tolist()), a
    if kind == "ndarray":
        return a, a
    if kind == "list1":
        return a[:1].tolist(), a[:1]
    if kind == "str":
        txt = (" " if rng.integers(2) else ",").join(fmt_num(v) for v in a)
        if all(c in "01 ," for c in txt):     # pure 0/1 text would be read digit by digit
            a = a.copy()
            a[0] = 5
            txt = (" ").join(fmt_num(v) for v in a)
        return txt, txt
    raise KeyError(kind)


def apply_op(x, op, y):
    if op == "add":
        return x + y
    if op == "radd":
        return y + x
    if op == "sub":
        return x - y
    if op == "rsub":
        return y - x
    if op == "mul":
        return x * y
    if op == "rmul":
        return y * x
    raise KeyError(op)


def run_binop(ctx, x, m, op, y, my, what):
    """execute x (op) y on the real objects and on the model; returns (real result, model result) or (None, None)."""
    reflected = op.startswith("r")
    if op in ("mul", "rmul"):
        t2, has2, len2, _ = to_model_operand(my)
        expect_err = m.length != len2 and m.length != 1 and len2 != 1
        try:
            with core.quiet():
                r = apply_op(x, op, y)
        except ValueError:
            ctx.check("model.valueerror", expect_err or (m.length == 1 and len2 > 1), f"{what}: unexpected ValueError")
            return None, None
        if not ctx.check("model.valueerror", not expect_err, f"{what}: operands of different lengths were not rejected with ValueError"):
            return None, None
        mm = real_to_model(r) if isinstance(r, T.electrical_signal) else None
        if mm is None:
            ctx.check("model.class", False, f"{what}: returned {type(r).__name__}")
            return None, None
        want_len = max(m.length, len2)
        ctx.check("model.npol_len", contract_of(r) is None and r.len() == want_len and type(r) is type(x), f"{what}: product has len {r.len()} (expected {want_len}) or breaks the contract: {contract_of(r)}")
        return r, mm            # values of '*' are adopted
    res = model_addsub(m, my, -1 if "sub" in op else 1, reflected)
    try:
        with core.quiet():
            r = apply_op(x, op, y)
    except ValueError as e:
        ctx.check("model.valueerror", res[0] in ("valueerror", "either"), f"{what}: ValueError for operands the model accepts: {e}")
        return None, None
    if not ctx.check("model.valueerror", res[0] != "valueerror", f"{what}: operands of different lengths were not rejected with ValueError"):
        return None, None
    if not isinstance(r, T.electrical_signal):
        ctx.check("model.class", False, f"{what}: returned {type(r).__name__}")
        return None, None
    compare(ctx, r, res[1], what)
    return r, real_to_model(r)


SLICES = ["i", "neg_i", "a:b", ":b", "a:", "::k", "::-1", "a:b:k", "-a:"]


def make_slice(rng, form, n):
    if form == "i":
        return int(rng.integers(0, n))
    if form == "neg_i":
        return -int(rng.integers(1, n + 1))
    a = int(rng.integers(0, n))
    b = int(rng.integers(a + 1, n + 1))
    k = int(rng.integers(1, 4))
    return {"a:b": slice(a, b), ":b": slice(None, b), "a:": slice(a, None), "::k": slice(None, None, k), "::-1": slice(None, None, -1),
            "a:b:k": slice(a, b, k), "-a:": slice(-int(rng.integers(1, n + 1)), None)}[form]


def run_slice(ctx, x, m, sl, what):
    with core.quiet():
        r = x[sl]
    S = m.S[..., sl]
    N = None if m.N is None else m.N[..., sl]
    if np.ndim(S) < m.S.ndim:          # int index keeps one sample per polarisation
        S = S[..., None]
        N = None if N is None else N[..., None]
    mm = Model(m.cls, S, N)
    ok = compare(ctx, r, mm, what)
    good = ok and np.array_equal(r.signal, S) and (N is None or np.array_equal(r.noise, N))
    ctx.check("slice.values", good, f"{what}: slice does not return exactly the selected samples of signal and noise")
    return r, mm


# ---- workloads ---------------------------------------------------------------------------
CLASSES = ["el", "opt1", "opt2"]
SCOPE_LEN = [1, 2, 3, 5, 7]
DTYPES = ["int", "float", "complex"]
KINDS_OBJ = ["obj", "obj1"]
KINDS_PLAIN = ["int", "float", "complex", "list", "tuple", "str", "ndarray", "npscalar", "list1"]
BINOPS = ["add", "radd", "sub", "rsub", "mul", "rmul"]
SCOPE = [(c, n, d) for c in CLASSES for n in SCOPE_LEN for d in DTYPES]


def w_small_scope(ctx, rng, i):
    cls, n, dtype = SCOPE[i]
    ctx.describe(cls=cls, n=n, dtype=dtype)
    count = 0
    for left_noise in (False, True):
        x, m = make_obj(rng, cls, n, dtype, left_noise)
        combos = [(k, rn) for k in KINDS_OBJ for rn in (False, True)] + [(k, False) for k in KINDS_PLAIN]
        for kind, right_noise in combos:
            for op in BINOPS:
                if kind in ("ndarray", "npscalar") and op in ("radd", "rsub", "rmul"):
                    continue    # numpy takes over when an ndarray / numpy scalar is on the left-hand side
                if kind in KINDS_OBJ and op in ("radd", "rsub", "rmul"):
                    continue    # same-class operands dispatch to the non-reflected method of the left operand
                y, my = make_operand(rng, kind, cls, n, dtype, right_noise)
                what = f"{cls}[{n},{dtype},noise={left_noise}] {op} {kind}(noise={right_noise})"
                ctx.describe(cls=cls, n=n, dtype=dtype, left_noise=left_noise, kind=kind, right_noise=right_noise, op=op, operand=y if not isinstance(y, T.electrical_signal) else {"signal": y.signal, "noise": y.noise},
                             left={"signal": x.signal, "noise": x.noise})
                run_binop(ctx, x, m, op, y, my, what)
                count += 1
                nontriv = (n >= 2 or kind in ("list", "tuple", "str", "ndarray", "obj")) and (left_noise or right_noise or cls == "opt2" or op.startswith("r") or kind in ("list", "tuple", "str", "ndarray"))
                if nontriv:
                    ctx.sigs.add(repr((cls, n, dtype, left_noise, kind, right_noise, op)))
        # mismatched lengths must be rejected
        if n >= 2:
            for kind in ("obj", "list", "ndarray"):
                y, my = make_operand(rng, kind, cls, n + 1, dtype, False)
                for op in ("add", "sub", "mul") + (("radd", "rsub") if kind == "list" else ()):
                    ctx.describe(cls=cls, n=n, kind=kind, op=op, mismatch=n + 1)
                    run_binop(ctx, x, m, op, y, my, f"{cls}[{n}] {op} {kind}[{n + 1}]")
                    count += 1
        for form in SLICES:
            for rep in range(2):
                sl = make_slice(rng, form, n)
                ctx.describe(cls=cls, n=n, dtype=dtype, noise=left_noise, slice=repr(sl))
                run_slice(ctx, x, m, sl, f"{cls}[{n},{dtype},noise={left_noise}][{sl}]")
                count += 1
            ctx.sigs.add(repr((cls, n, dtype, left_noise, "slice", form)))
        for nn in sorted({1, n, max(1, n // 2)}):
            with core.quiet():
                c = x.copy(nn)
            compare(ctx, c, Model(m.cls, m.S[..., :nn], None if m.N is None else m.N[..., :nn]), f"{cls}[{n}].copy({nn})")
        with core.quiet():
            c = x.copy()
        compare(ctx, c, m, f"{cls}[{n}].copy()")
        for dom, sh in (("w", False), ("t", False), ("f", True), ("t", True)):
            with core.quiet():
                X = x(dom, sh)
            f = np.fft.fft if dom in "wf" else np.fft.ifft
            g = (lambda z: z) if not sh else ((lambda z: np.fft.fftshift(z, axes=-1)) if dom in "wf" else (lambda z: np.fft.ifftshift(z, axes=-1)))
            mm = Model(m.cls, g(f(m.S, axis=-1)), None if m.N is None else g(f(m.N, axis=-1)))
            want_cls = T.electrical_signal if cls == "el" else T.optical_signal
            ctx.check("model.class", type(X) is want_cls and contract_of(X) is None and X.len() == n and getattr(X, "n_pol", None) == m.n_pol and (X.noise is not None) == left_noise,
                      f"{cls}[{n}]({dom!r},{sh}) broke class/contract/len/n_pol/noise presence: {contract_of(X)}")
            tot = X.signal + (X.noise if X.noise is not None else 0)
            ctx.check("model.total", np.allclose(tot, mm.total, rtol=1e-9, atol=1e-12 * (np.abs(mm.total).max() + 1e-300)), f"{cls}[{n}]({dom!r},{sh}) total field differs from numpy transform")
            count += 1
    ctx.evaluations += count
    ctx.case(("scope", cls, n, dtype), sample={"class": cls, "length": n, "dtype": dtype, "cases": count})
    ctx.bin("scope.class", cls)


LEAF_LEN = [1, 2, 3, 7, 9, 13, 31, 64, 101, 4096, 100003]


def w_big_ints(ctx, rng, i):
    """integer records whose values float64 cannot hold (odd, |v| between 2**53 and 2**61): + and - (reflected and scalar forms,
    every operand kind, every noise placement, length-1 broadcasting), slices and copies must stay exact — the model compares
    integer totals with array_equal. Products are left out: they leave int64."""
    cls = ["el", "opt1", "opt2"][i % 3]
    n = [1, 2, 5, 64][(i // 3) % 4]
    ctx.describe(cls=cls, n=n, dtype="int", big=True)
    _BIG[0] = True
    try:
        for left_noise in (False, True):
            x, m = make_obj(rng, cls, n, "int", left_noise)
            combos = [(k, rn) for k in KINDS_OBJ for rn in (False, True)] + [(k, False) for k in ("int", "list", "tuple", "str", "ndarray", "npscalar", "list1")]
            for kind, right_noise in combos:
                for op in ("add", "radd", "sub", "rsub"):
                    if kind in ("ndarray", "npscalar") + tuple(KINDS_OBJ) and op in ("radd", "rsub"):
                        continue
                    y, my = make_operand(rng, kind, cls, n, "int", right_noise)
                    what = f"{cls}[{n},int>2^53,noise={left_noise}] {op} {kind}(noise={right_noise})"
                    ctx.describe(cls=cls, n=n, left_noise=left_noise, kind=kind, right_noise=right_noise, op=op, operand=y if not isinstance(y, T.electrical_signal) else {"signal": y.signal, "noise": y.noise},
                                 left={"signal": x.signal, "noise": x.noise})
                    r, mm = run_binop(ctx, x, m, op, y, my, what)
                    if r is not None and mm is not None:
                        sl = make_slice(rng, SLICES[int(rng.integers(len(SLICES)))], r.len())
                        run_slice(ctx, r, mm, sl, what + f" [{sl}]")
                        with core.quiet():
                            c = r.copy()
                        compare(ctx, c, mm, what + " .copy()")
                    ctx.sigs.add(repr(("big", cls, n, left_noise, kind, right_noise, op)))
    finally:
        _BIG[0] = False
    ctx.case(("big", cls, n), sample={"cls": cls, "n": n, "values": "odd integers of magnitude 2^53..2^60"} if i < 2 else None)


def w_trees(ctx, rng, i):
    cls = CLASSES[i % 3]
    big = ctx.tier == "thorough" or i % 40 == 0
    pool = LEAF_LEN if big else LEAF_LEN[:-2] + [4096] * (i % 10 == 0)
    n = int(pool[int(rng.integers(len(pool)))])
    dtype = DTYPES[int(rng.integers(3))]
    x, m = make_obj(rng, cls, n, dtype, bool(rng.integers(2)))
    depth = int(rng.integers(1, 7))
    prog = []
    for step in range(depth):
        choices = ["binop"] * 5 + ["slice", "slice", "copy", "transform", "apply"]
        kind = str(rng.choice(choices))
        cur_n = m.length
        if kind == "binop":
            op = BINOPS[int(rng.integers(6))]
            okinds = ["obj", "obj", "obj1", "int", "float", "complex", "list", "tuple", "str", "ndarray", "npscalar"]
            ok_ = str(rng.choice(okinds))
            if cur_n > 5000 and ok_ in ("list", "tuple", "str"):
                ok_ = "ndarray"
            if ok_ in ("ndarray", "npscalar", "obj", "obj1") and op.startswith("r"):
                op = op[1:]      # numpy takes over when an ndarray / numpy scalar is the left operand
            ocls = "opt2" if (m.cls == "opt" and m.S.ndim == 2) else ("opt1" if m.cls == "opt" else "el")
            on = cur_n if rng.integers(12) else (cur_n + 1 if cur_n > 1 else cur_n)    # occasionally a mismatched length
            y, my = make_operand(rng, ok_, ocls, on, DTYPES[int(rng.integers(3))], bool(rng.integers(2)))
            prog.append((op, ok_, on != cur_n, bool(getattr(y, "noise", None) is not None)))
            ctx.describe(cls=cls, leaf_len=n, dtype=dtype, program=prog)
            alias, a_sig, a_noise = x, x.signal.copy(), None if x.noise is None else x.noise.copy()
            if op in ("add", "sub", "mul") and rng.integers(4) == 0:
                # augmented assignment on a second name: python falls back to the binary operator, the operand object must not change
                res = model_addsub(m, my, -1 if op == "sub" else 1, False) if op != "mul" else None
                z = x
                try:
                    with core.quiet():
                        if op == "add":
                            z += y
                        elif op == "sub":
                            z -= y
                        else:
                            z *= y
                except ValueError:
                    z = None
                if z is not None:
                    ctx.check("op.augmented_operand", z is not alias and np.array_equal(alias.signal, a_sig) and (a_noise is None or np.array_equal(alias.noise, a_noise)),
                              f"augmented {op} modified the object that was the left operand")
                    if res is not None and res[0] == "ok" and isinstance(z, T.electrical_signal):
                        compare(ctx, z, res[1], f"tree step {step} augmented {op}")
            r, mm = run_binop(ctx, x, m, op, y, my, f"tree step {step} {prog[-1]}")
            if r is None:
                continue
            x, m = r, mm
        elif kind == "slice":
            form = SLICES[int(rng.integers(len(SLICES)))]
            sl = make_slice(rng, form, cur_n)
            prog.append(("slice", form))
            ctx.describe(cls=cls, leaf_len=n, dtype=dtype, program=prog, slice=repr(sl))
            x, m = run_slice(ctx, x, m, sl, f"tree step {step} slice {sl}")
        elif kind == "copy":
            nn = None if rng.integers(2) else int(rng.integers(1, cur_n + 1))
            prog.append(("copy", nn is None))
            with core.quiet():
                x = x.copy(nn) if nn is not None else x.copy()
            m = Model(m.cls, m.S[..., :nn], None if m.N is None else m.N[..., :nn])
            compare(ctx, x, m, f"tree step {step} copy({nn})")
        elif kind == "transform":
            dom = str(rng.choice(["w", "t", "f"]))
            sh = bool(rng.integers(2))
            prog.append(("call", dom, sh))
            with core.quiet():
                x = x(dom, sh)
            mm = real_to_model(x)
            ctx.check("model.npol_len", contract_of(x) is None and x.len() == m.length and getattr(x, "n_pol", None) == m.n_pol and (x.noise is not None) == (m.N is not None),
                      f"tree step {step} transform broke contract/len/n_pol/noise presence")
            m = mm
        else:
            fn = [np.conj, np.abs, lambda a: a * 2, np.negative][int(rng.integers(4))]
            prog.append(("apply",))
            with core.quiet():
                x = x.apply(fn)
            mm = real_to_model(x)
            ctx.check("model.npol_len", contract_of(x) is None and x.len() == m.length and (x.noise is not None) == (m.N is not None), f"tree step {step} apply broke contract/len/noise presence")
            m = mm
    ctx.case(("tree", cls, n, dtype, tuple(prog)), nontrivial=len(prog) >= 1, sample={"class": cls, "leaf_len": n, "dtype": dtype, "program": prog} if i < 6 else None)
    ctx.bin("tree.depth", len(prog))
    ctx.bin("tree.leaf_len", n)


def w_ctor(ctx, rng, i):
    n = int(rng.choice([1, 2, 3, 8, 33]))
    dtype = DTYPES[int(rng.integers(3))]
    form = ["list", "tuple", "ndarray", "str", "scalar"][i % 5]
    with_noise = bool((i // 5) % 2)
    give_dtype = [None, None, complex, float][int(rng.integers(4))] if dtype != "complex" else [None, complex][int(rng.integers(2))]
    a = rand_arr(rng, (n,), dtype)
    b = rand_arr(rng, (n,), dtype)

    def ren(v):
        if form == "list":
            return v.tolist()
        if form == "tuple":
            return tuple(v.tolist())
        if form == "ndarray":
            return v.copy()
        if form == "str":
            txt = " ".join(fmt_num(t) for t in v)
            return txt if not all(c in "01 " for c in txt) else " ".join(["5"] + [fmt_num(t) for t in v[1:]])
        return v[0].item()
    sa, sb = ren(a), ren(b)
    if form == "str":
        a = to_model_operand(sa)[0]
        b = to_model_operand(sb)[0]
    if form == "scalar":
        a, b = a[:1], b[:1]
    ctx.describe(form=form, n=n, dtype=dtype, with_noise=with_noise, give_dtype=str(give_dtype))
    keep = [v.copy() for v in (sa, sb) if isinstance(v, np.ndarray)]
    kw = {} if give_dtype is None else {"dtype": give_dtype}
    with core.quiet():
        # electrical
        e = T.electrical_signal(sa, sb if with_noise else None, **kw)
        ctx.check("ctor.contract", contract_of(e) is None and e.len() == a.size and (e.noise is not None) == with_noise, f"electrical_signal({form}) contract/len/noise: {contract_of(e)}")
        ctx.check("ctor.values", np.array_equal(e.signal, a.astype(e.signal.dtype)) and (not with_noise or np.array_equal(e.noise, b.astype(e.noise.dtype))), f"electrical_signal({form}) does not hold the given values")
        if give_dtype is not None:
            ctx.check("ctor.dtype", e.signal.dtype == np.dtype(give_dtype), f"explicit dtype {give_dtype} not honoured: {e.signal.dtype}")
        for npol in (None, 1, 2):
            o = T.optical_signal(sa, sb if with_noise else None, n_pol=npol, **kw)
            want_pol = 1 if npol in (None, 1) else 2
            ctx.check("ctor.contract", contract_of(o) is None and o.n_pol == want_pol and o.len() == a.size and (o.noise is not None) == with_noise,
                      f"optical_signal({form}, n_pol={npol}, noise={with_noise}) contract/n_pol/len/noise: {contract_of(o)} n_pol={o.n_pol}")
            rows = o.signal if want_pol == 1 else o.signal[0]
            ctx.check("ctor.values", np.array_equal(rows, a.astype(o.signal.dtype)) and (want_pol == 1 or np.array_equal(o.signal[1], o.signal[0])), f"optical_signal({form}, n_pol={npol}) does not hold the given values")
            if with_noise:
                nrows = o.noise if want_pol == 1 else o.noise[0]
                ctx.check("ctor.values", np.array_equal(nrows, b.astype(o.noise.dtype)), f"optical_signal({form}, n_pol={npol}) noise values differ")
        if form in ("list", "ndarray", "tuple") and n >= 1:
            A2 = np.stack([a, rand_arr(rng, (n,), dtype)])
            B2 = np.stack([b, rand_arr(rng, (n,), dtype)])
            src2 = A2.tolist() if form == "list" else (tuple(map(tuple, A2.tolist())) if form == "tuple" else A2.copy())
            nz2 = None if not with_noise else (B2.tolist() if form == "list" else (tuple(map(tuple, B2.tolist())) if form == "tuple" else B2.copy()))
            for npol in (None, 1, 2):
                o = T.optical_signal(src2, nz2, n_pol=npol, **kw)
                want_pol = 2 if npol in (None, 2) else 1
                ctx.check("ctor.contract", contract_of(o) is None and o.n_pol == want_pol and o.len() == n and (o.noise is not None) == with_noise, f"optical_signal((2,N) {form}, n_pol={npol}): {contract_of(o)} n_pol={o.n_pol}")
                ctx.check("ctor.values", np.array_equal(o.signal, A2.astype(o.signal.dtype) if want_pol == 2 else A2[0].astype(o.signal.dtype)), f"optical_signal((2,N) {form}, n_pol={npol}) values differ")
                if with_noise:
                    ctx.check("ctor.values", np.array_equal(o.noise, B2.astype(o.noise.dtype) if want_pol == 2 else B2[0].astype(o.noise.dtype)), f"optical_signal((2,N) {form}, n_pol={npol}) noise does not belong to the same polarisation(s) as the signal")
            # (1,N)
            for npol in (None, 1, 2):
                o = T.optical_signal(A2[:1].copy() if form == "ndarray" else A2[:1].tolist(), None if not with_noise else B2[:1].tolist(), n_pol=npol, **kw)
                want_pol = 2 if npol in (None, 2) else 1
                ctx.check("ctor.contract", contract_of(o) is None and o.n_pol == want_pol and o.len() == n and (o.noise is not None) == with_noise, f"optical_signal((1,N), n_pol={npol}): {contract_of(o)} n_pol={o.n_pol}")
    for v, k in zip([v for v in (sa, sb) if isinstance(v, np.ndarray)], keep):
        ctx.check("ctor.input_unchanged", np.array_equal(v, k), "constructor modified its input array")
        ctx.check("ctor.no_alias", not np.shares_memory(v, e.signal) and (e.noise is None or not np.shares_memory(v, e.noise)), "constructor keeps the caller's buffer")
    ctx.case(("ctor", form, n, dtype, with_noise, str(give_dtype)), sample={"form": form, "n": n, "dtype": dtype, "noise": with_noise, "given_dtype": str(give_dtype)} if i < 5 else None)
    ctx.bin("ctor.form", form)


NARROW = [np.int8, np.int16, np.int32, np.int64, np.uint8, np.uint16, np.float16, np.float32, np.float64, np.complex64, np.complex128]      # (bool is not a sample dtype of the property: numpy's bool '+' is a logical or)


def w_ctor_dtypes(ctx, rng, i):
    """signal and noise handed over in any pair of numpy dtypes (what files, ADC captures and other libraries deliver): the object
    must hold both — values as given, up to the exact conversion into their common numpy result type — for both classes and layouts;
    then +, slicing and copy() on it agree with the array-pair model."""
    sdt = NARROW[i % len(NARROW)]
    ndt = NARROW[(i // len(NARROW)) % len(NARROW)]
    cls = ["el", "opt1", "opt2"][(i // len(NARROW) ** 2) % 3]
    n = int(rng.choice([1, 3, 8]))
    shape = (2, n) if cls == "opt2" else (n,)

    def arr(dt):
        dt = np.dtype(dt)
        if dt.kind == "b":
            return rng.integers(0, 2, shape).astype(bool)
        if dt.kind in "iu":
            lo = 0 if dt.kind == "u" else -9
            return rng.integers(lo, 10, shape).astype(dt)
        a = np.round(rng.normal(0, 2, shape), 2) + rng.choice([0.25, 0.5, 0.6])        # fractional parts: a truncation shows
        if dt.kind == "c":
            a = a + 1j * (np.round(rng.normal(0, 2, shape), 2) + 0.75)
        return a.astype(dt)
    S, N = arr(sdt), arr(ndt)
    ctx.describe(cls=cls, n=n, signal_dtype=str(np.dtype(sdt)), noise_dtype=str(np.dtype(ndt)))
    common = np.result_type(S, N)
    with core.quiet():
        x = T.electrical_signal(S.copy(), N.copy()) if cls == "el" else T.optical_signal(S.copy(), N.copy())
    ok = contract_of(x) is None
    ctx.check("ctor.contract", ok, f"{cls}(signal {S.dtype}, noise {N.dtype}): {contract_of(x)}")
    if ok:
        # conversion into the common type is exact for every pair except complex64/float32 <- int64 and the like (where numpy itself
        # chooses float64 / complex128): compare in complex128 with a tolerance of one unit of the narrower type
        tol = 1e-3 if "16" in str(S.dtype) + str(N.dtype) and ("float16" in (str(S.dtype), str(N.dtype))) else 1e-6
        good = np.allclose(np.asarray(x.signal, complex), S.astype(complex), rtol=tol, atol=tol) and np.allclose(np.asarray(x.noise, complex), N.astype(complex), rtol=tol, atol=tol)
        ctx.check("ctor.values", good, f"{cls} built from signal dtype {S.dtype} and noise dtype {N.dtype} does not hold the given values (stored dtypes {x.signal.dtype}/{x.noise.dtype}; numpy's common type is {common})",
                  signal=S, noise=N, stored_signal=x.signal, stored_noise=x.noise)
        m = Model("el" if cls == "el" else "opt", x.signal, x.noise)
        with core.quiet():
            y = x + x
        compare(ctx, y, model_addsub(m, m, 1, False)[1], f"{cls}[{S.dtype}/{N.dtype}] + itself")
        with core.quiet():
            c = x.copy()
        compare(ctx, c, m, f"{cls}[{S.dtype}/{N.dtype}].copy()")
    ctx.case(("ctordt", cls, str(np.dtype(sdt)), str(np.dtype(ndt))), sample=dict(cls=cls, signal_dtype=str(np.dtype(sdt)), noise_dtype=str(np.dtype(ndt))) if i < 2 else None)


def w_ctor_rejects(ctx, rng, i):
    """data from which no contract-satisfying object can be built in an obvious way: the statement says an object ALWAYS satisfies the
    contract, not that such data is rejected with a particular exception — so the constructor may raise (ValueError / TypeError) or
    return an object that satisfies the contract (e.g. by squeezing a (1, 1, n) array); what it may not do is return one that does not."""
    n = int(rng.integers(2, 6))

    def rejected_or_valid(cls, *a):
        before = [core._arg_state(v) for v in a]
        try:
            with warnings.catch_warnings():
                warnings.simplefilter("ignore")
                o = cls(*a)
        except (ValueError, TypeError) as e:
            ctx.bin("ctor.rejects.outcome", type(e).__name__)
            ctx.check("ctor.rejects", [core._arg_state(v) for v in a] == before, f"{cls.__name__}{tuple(np.shape(v) for v in a)}: the rejected call modified its arguments")
            return
        ctx.bin("ctor.rejects.outcome", "object returned")
        ctx.check("ctor.rejects", contract_of(o) is None, f"{cls.__name__}{tuple(np.shape(v) for v in a)} returned an object that violates the contract: {contract_of(o)}")
    with core.quiet():
        rejected_or_valid(T.electrical_signal, np.zeros((2, n)))
        rejected_or_valid(T.electrical_signal, [])
        rejected_or_valid(T.electrical_signal, np.zeros((1, 1, n)))
        rejected_or_valid(T.electrical_signal, np.zeros(n), np.zeros(n + 1))
        rejected_or_valid(T.electrical_signal, np.zeros(n), 1.0)
        rejected_or_valid(T.optical_signal, np.zeros((3, n)))
        rejected_or_valid(T.optical_signal, np.zeros((2, 2, n)))
        rejected_or_valid(T.optical_signal, [])
        rejected_or_valid(T.optical_signal, np.zeros((2, 0)))
        rejected_or_valid(T.optical_signal, np.zeros((2, n)), np.zeros(n))
        rejected_or_valid(T.optical_signal, np.zeros(n), np.zeros(n - 1))
    ctx.case(("rej", n))


def w_devices_under_invariant(ctx, rng, i):
    """a short device chain: every object the library builds internally passes M1/M2 as well."""
    import opticomlib.devices as dv
    with core.quiet():
        T.gv(sps=int(rng.choice([4, 8, 16])), R=1e9)
        sps = T.gv.sps
        bits = rng.integers(0, 2, 24)
        np.random.seed(int(rng.integers(2 ** 31)))
        v = dv.DAC(bits, Vout=2.0, pulse_shape=str(rng.choice(["nrz", "rz", "gaussian"])))
        cw = T.optical_signal(np.full(v.len(), 0.03 + 0j), n_pol=int(rng.integers(1, 3)))
        o = dv.MZM(cw, v, bias=-2.0, Vpi=2.0)
        o = dv.DM(o, float(rng.uniform(-50, 50)))
        o = dv.BPF(o, 0.3 * T.gv.fs)
        y = dv.PD(o, 0.4 * T.gv.fs, include_noise="all")
        z = dv.SAMPLER(dv.LPF(y, 0.3 * T.gv.fs), sps // 2)
        ctx.check("inv.devices", contract_of(z) is None and contract_of(o) is None and contract_of(y) is None, "device chain produced an object that breaks the contract")
    ctx.case(("chain", sps, cw.n_pol, i))


WORKLOADS = [
    Workload("small_scope", w_small_scope, len(SCOPE), len(SCOPE), exhaustive=True, budget=600),
    Workload("trees", w_trees, 12000, 400000, budget=120),
    Workload("ctor", w_ctor, 1000, 20000),
    Workload("big_ints", w_big_ints, 48, 2400),
    Workload("ctor_dtypes", w_ctor_dtypes, 3 * 121, 3 * 121 * 10),
    Workload("ctor_rejects", w_ctor_rejects, 8, 80),
    Workload("devices_under_invariant", w_devices_under_invariant, 20, 400),
    Workload("repo_tests", lambda ctx, rng, i: core.run_repo_tests(ctx), 1, 1, budget=1800, tiers=("thorough",)),
]


def classify(v):
    return None
