"""C14 — the global grid stays consistent over any call history; devices are pure and seedable."""
import numpy as np
from numpy.fft import fftfreq, fftshift
from scipy.constants import c as c_light

from .. import core
from ..run import Workload

RULE = ("(G) random histories of <= 12 gv(...) / gv.clean() calls over every subset form of (sps, R, fs) with commensurate values, wavelength, N "
        "present/absent, custom keywords: the grid invariant is evaluated after every call; (P,D) every public device/codec/DSP/numeric "
        "function is called on generated inputs with write-protected argument buffers, a gv write-trap armed, outputs checked for aliasing, "
        "and re-executed under the same / a different numpy RNG state; (H) a pool of deterministic calls on shared inputs is executed in "
        "random permutations and compared with canonical digests. Non-trivial: history with >= 2 configuration calls / any function call; "
        "distinct by (history shape) / (function, input variant, seed).")
ASSUMPTIONS = ["execution_time bookkeeping attributes written on arguments are not sample data and are ignored",
               "the time axis gv.t is accepted when it starts at 0, is uniform and its pitch equals dt to within 2 parts in N*sps",
               "OMP/BLAS threads pinned to 1 so that scikit-learn's KMeans reductions are order-deterministic"]
MIN_CHECKS = {"hist.fresh_process": 1, "gv.invariant": 2000, "pure.args_unchanged": 300, "pure.gv_unchanged": 300, "pure.ambient_unchanged": 300, "det.same_state": 300, "det.any_state": 150, "alias.none": 300, "hist.independent": 10}
SHARDS = {"quick": 4}

T = D = P = O = U = L = None
_trap = {"armed": False, "writes": []}


def setup(ctx):
    global T, D, P, O, U, L
    import opticomlib.typing as ty
    import opticomlib.devices as dv
    import opticomlib.ppm as ppm
    import opticomlib.ook as ook
    import opticomlib.utils as ut
    T, D, P, O, U = ty, dv, ppm, ook, ut
    try:
        import opticomlib.lab as lab
        L = lab
    except Exception:
        L = None

    # write-trap on the grid singleton: any attribute assignment/deletion while a device call is in flight is recorded
    cls = ty.global_variables

    def trap_set(self, name, value):
        if _trap["armed"]:
            _trap["writes"].append(name)
        object.__setattr__(self, name, value)

    def trap_del(self, name):
        if _trap["armed"]:
            _trap["writes"].append("del " + name)
        object.__delattr__(self, name)

    cls.__setattr__ = trap_set
    cls.__delattr__ = trap_del
    core._attached.append((cls, "__setattr__", object.__setattr__))


# ---- (G) grid histories ------------------------------------------------------------------
def gv_snapshot():
    out = {}
    for k, v in T.gv.__dict__.items():
        out[k] = core.digest(v) if isinstance(v, np.ndarray) else repr(v)
    return out


def check_grid(ctx, what, expect):
    g = T.gv
    ok = True
    ok &= ctx.check("gv.invariant", isinstance(g.sps, (int, np.integer)) and g.sps >= 1, f"{what}: sps = {g.sps!r} is not a positive integer")
    ok &= ctx.check("gv.invariant", np.isclose(g.fs, g.R * g.sps, rtol=1e-12, atol=0), f"{what}: fs = {g.fs!r} != R*sps = {g.R!r}*{g.sps!r}")
    ok &= ctx.check("gv.invariant", np.isclose(g.dt, 1 / g.fs, rtol=1e-12, atol=0), f"{what}: dt = {g.dt!r} != 1/fs")
    ok &= ctx.check("gv.invariant", np.isclose(g.f0, c_light / g.wavelength, rtol=1e-12, atol=0), f"{what}: f0 = {g.f0!r} != c/wavelength ({g.wavelength!r})")
    for k, v in expect.items():
        have = getattr(g, k, "<missing>")
        same = (have == v) if not isinstance(v, float) else (isinstance(have, (int, float, np.number)) and np.isclose(have, v, rtol=1e-12, atol=0))
        ok &= ctx.check("gv.in_force", bool(same), f"{what}: {k} = {have!r}, the value in force should be {v!r}")
    if g.N is not None:
        n = int(g.N) * int(g.sps)
        t, w, dw = g.t, g.w, g.dw
        good = isinstance(t, np.ndarray) and t.shape == (n,) and isinstance(w, np.ndarray) and w.shape == (n,)
        ok &= ctx.check("gv.axes", good, f"{what}: N={g.N} sps={g.sps}: len(t)={None if t is None else np.shape(t)}, len(w)={None if w is None else np.shape(w)}, expected {n} points")
        if good:
            ok &= ctx.check("gv.axes", dw is not None and np.isclose(dw, 2 * np.pi * g.fs / n, rtol=1e-12, atol=0), f"{what}: dw = {dw!r} != 2*pi*fs/(N*sps) = {2 * np.pi * g.fs / n!r}")
            ok &= ctx.check("gv.axes", np.allclose(w, 2 * np.pi * fftshift(fftfreq(n)) * g.fs, rtol=1e-12, atol=1e-9 * g.fs / n), f"{what}: w is not 2*pi*fftshift(fftfreq(N*sps))*fs for the current fs")
            if n > 1:
                d = np.diff(t)
                ok &= ctx.check("gv.axes", t[0] == 0 and np.allclose(d, d[0], rtol=1e-9, atol=0) and abs(d[0] / g.dt - 1) <= 2.0 / n + 1e-12, f"{what}: t is not a uniform grid from 0 with pitch dt={g.dt!r} (t[0]={t[0]!r}, pitch {d[0]!r})")
    else:
        ok &= ctx.check("gv.axes", g.t is None and g.w is None and g.dw is None, f"{what}: no N in force but t/w/dw are set")
    return ok


DEFAULTS = dict(sps=16, R=1e9, fs=16e9, wavelength=1550e-9, N=None)


def w_history(ctx, rng, i):
    with core.quiet():
        T.gv.clean()
    model = dict(DEFAULTS)
    custom = {}
    steps = int(rng.integers(1, 13))
    hist = []
    n_cfg = 0
    for step in range(steps):
        if rng.integers(7) == 0:
            with core.quiet():
                T.gv.clean()
            model = dict(DEFAULTS)
            custom = {}
            hist.append("clean")
            ok = check_grid(ctx, f"after {hist}", {**model})
            ctx.check("gv.clean", set(T.gv.__dict__) == {"sps", "R", "fs", "dt", "wavelength", "f0", "N", "t", "dw", "w"} and T.gv.dt == 1 / 16e9, f"clean() left attributes {sorted(T.gv.__dict__)}")
            continue
        form = str(rng.choice(["sps,R", "sps,fs", "R,fs", "sps", "R", "fs", "none"]))
        sps = int(rng.choice([1, 2, 3, 4, 8, 16, 17, 32, 64, 100, 128]))
        R = float(rng.choice([1e6, 1e8, 1e9, 2.5e9, 1e10, 1.25e10, 4e10]))
        kw = {}
        if form == "sps,R":
            kw = dict(sps=sps, R=R)
            model.update(sps=sps, R=R, fs=R * sps)
        elif form == "sps,fs":
            kw = dict(sps=sps, fs=R * sps)
            model.update(sps=sps, fs=R * sps, R=R * sps / sps)
        elif form == "R,fs":
            kw = dict(R=R, fs=R * sps)
            model.update(sps=sps, R=R, fs=R * sps)
        elif form == "sps":
            kw = dict(sps=sps)
            model.update(sps=sps, fs=model["R"] * sps)
        elif form == "R":
            kw = dict(R=R)
            model.update(R=R, fs=R * model["sps"])
        elif form == "fs":
            kw = dict(fs=model["R"] * sps)       # commensurate with the slot rate in force
            model.update(sps=sps, fs=model["R"] * sps)
        if rng.integers(3) == 0:
            kw["wavelength"] = float(rng.choice([1310e-9, 1550e-9, 1565e-9, 850e-9]))
            model["wavelength"] = kw["wavelength"]
        else:
            model["wavelength"] = 1550e-9            # documented default of every call
        if rng.integers(3) == 0:
            kw["N"] = int(rng.choice([1, 2, 7, 10, 64, 100, 1000]))
            model["N"] = kw["N"]
        if rng.integers(4) == 0:
            key = str(rng.choice(["alpha", "Vpi", "beta2", "label"]))
            val = [0.5, 5, -20.0, "x"][int(rng.integers(4))]
            kw[key] = val
            custom[key] = val
        hist.append(kw)
        n_cfg += 1
        ctx.describe(history=hist)
        with core.quiet():
            r = T.gv(**kw)
        ctx.check("gv.returns_self", r is T.gv, "gv(...) does not return the singleton")
        expect = {k: model[k] for k in ("sps", "R", "fs", "wavelength", "N")}
        expect.update(custom)
        check_grid(ctx, f"after {hist[-3:]} (step {step})", expect)
        # the axes a signal hands out are its caller's to edit: a record of exactly N*sps samples (the length of gv.t / gv.w) must
        # not be given the arrays held by gv
        if T.gv.N is not None and T.gv.N * T.gv.sps <= 20000 and rng.integers(2):
            nn = int(T.gv.N * T.gv.sps)
            x = (T.electrical_signal if rng.integers(2) else T.optical_signal)(np.ones(nn))
            with core.quiet():
                axes = {"t()": x.t(), "w()": x.w(), "w(shift=True)": x.w(shift=True)}
            for name, ax in axes.items():
                held = [a for a in (T.gv.t, T.gv.w) if isinstance(a, np.ndarray)]
                ctx.check("alias.gv_axes", isinstance(ax, np.ndarray) and ax.shape == (nn,) and not any(np.shares_memory(ax, h) for h in held), f"x.{name} of a record of N*sps samples is (a view of) the axis held by gv")
                if isinstance(ax, np.ndarray) and ax.flags.writeable:
                    ax *= 1e9                      # what a plotting script does with a time axis
            check_grid(ctx, f"after editing the axes returned by a signal in place (step {step})", expect)
    ctx.case(("hist", tuple("clean" if h == "clean" else tuple(sorted(k for k in h)) for h in hist)), nontrivial=n_cfg >= 2, sample={"history": hist} if i < 5 else None)
    ctx.bin("history.len", len(hist))
    with core.quiet():
        T.gv.clean()


# ---- catalogue of public functions -------------------------------------------------------
def flat_arrays(x, depth=0):
    """all ndarrays reachable from a result / argument (signals, sequences, eye objects, containers)."""
    out = []
    if depth > 4 or x is None:
        return out
    if isinstance(x, np.ndarray):
        out.append(x)
    elif isinstance(x, (T.electrical_signal,)):
        out += [a for a in (x.signal, x.noise) if a is not None]
    elif isinstance(x, T.binary_sequence):
        out.append(x.data)
    elif isinstance(x, T.eye):
        for k, v in x.__dict__.items():
            if k != "execution_time":
                out += flat_arrays(v, depth + 1)
    elif isinstance(x, (list, tuple)):
        for v in x:
            out += flat_arrays(v, depth + 1)
    elif isinstance(x, dict):
        for v in x.values():
            out += flat_arrays(v, depth + 1)
    return out


def result_digest(x, depth=0):
    if isinstance(x, T.eye):
        return tuple((k, result_digest(v, depth + 1)) for k, v in sorted(x.__dict__.items()) if k != "execution_time")
    if isinstance(x, T.electrical_signal):
        return (type(x).__name__, core.digest(x.signal, x.noise), getattr(x, "n_pol", None))
    if isinstance(x, T.binary_sequence):
        return ("bs", core.digest(x.data))
    if isinstance(x, np.ndarray):
        return ("nd", core.digest(x))
    if isinstance(x, (list, tuple)):
        return tuple(result_digest(v, depth + 1) for v in x)
    if isinstance(x, (float, np.floating)):
        return ("f", float(x).hex() if np.isfinite(x) else repr(x))
    if isinstance(x, (int, str, bool, complex, np.integer, np.complexfloating)) or x is None:
        return ("s", repr(x))
    return ("o", type(x).__name__)


def std_inputs(rng, sps=8, nbits=64):
    """shared inputs for the catalogue (built under the grid in force)."""
    bits = rng.integers(0, 2, nbits).astype(np.uint8)
    bits[:4] = [0, 1, 1, 0]
    n = nbits * sps
    v = np.kron(bits, np.ones(sps)) * 2.0 + 0.05 * rng.normal(0, 1, n)
    cw1 = np.sqrt(1e-3) * np.exp(1j * 0.3) * (1 + 0.05 * rng.normal(0, 1, n))
    f2 = np.stack([cw1, 0.5 * cw1[::-1]])
    nz2 = 1e-3 * (rng.normal(0, 1, (2, n)) + 1j * rng.normal(0, 1, (2, n)))
    return dict(bits=bits, v=v, n=n, f1=cw1, f2=f2, nz1=nz2[0].copy(), nz2=nz2)


def catalogue(rng, inp):
    """(name, callable, deterministic)  — each callable builds nothing: it only calls the library on the shared inputs."""
    b, v, n = inp["bits"], inp["v"], inp["n"]
    ES, OS, BS = T.electrical_signal, T.optical_signal, T.binary_sequence
    ev = ES(v, 0.02 * np.cos(np.arange(n)))
    o1 = OS(inp["f1"], inp["nz1"])
    o2 = OS(inp["f2"], inp["nz2"])
    o1c = OS(inp["f1"])
    bs = BS(b)
    sps = T.gv.sps
    fs = T.gv.fs
    M = 4
    ppm_bits = b[: len(b) // 2 * 2]
    code = P.PPM_ENCODER(ppm_bits, M)
    wave = D.DAC(code, pulse_shape="gaussian")
    wave_n = ES(wave.signal, 0.05 * np.sin(0.37 * np.arange(wave.len())))
    eyeobj = T.eye(mu0=0.1, mu1=1.0, s0=0.05, s1=0.08)
    slots = b.copy()
    cat = [
        ("PRBS", lambda: D.PRBS(7, 200, 5, True), True),
        ("DAC.nrz", lambda: D.DAC(b, 0.1, 2.0, "nrz"), True),
        ("DAC.rz.bs", lambda: D.DAC(bs, -0.2, 1.5, "rz"), True),
        ("DAC.gauss", lambda: D.DAC(b, 0.0, 1.0, "gaussian", T=sps, m=2), True),
        ("DAC.bw", lambda: D.DAC(b, 0.0, 1.0, "nrz", BW=0.3 * fs), True),
        ("LASER", lambda: D.LASER(np.arange(n) * T.gv.dt, 3.0, lw=1e6, rin=-150, df=0.01 * fs), False),
        ("PM", lambda: D.PM(o2, ev, 3.0), True),
        ("PM.arr", lambda: D.PM(o1, v, 3.0), True),
        ("MZM", lambda: D.MZM(o2, ev, bias=1.0, Vpi=4.0, loss_dB=2, ER_dB=20, pol="y"), True),
        ("MZM.bw", lambda: D.MZM(o1, v, bias=1.0, Vpi=4.0, BW=0.4 * fs), True),
        ("BPF", lambda: D.BPF(o2, 0.5 * fs), True),
        ("EDFA", lambda: D.EDFA(o1, 20, 5), False),
        ("EDFA.bw", lambda: D.EDFA(o2, 10, 4, BW=0.5 * fs), False),
        ("DM", lambda: D.DM(o2, 500.0), True),
        ("DM.retH", lambda: D.DM(o1c, -200.0, retH=True), True),
        ("FIBER.lin", lambda: D.FIBER(o2, 20, 0.2, -20, 0.1, 0), True),
        ("FIBER.nl2", lambda: D.FIBER(OS(inp["f2"] * 10), 5, 0.2, -20, 0.0, 2.0, 0.05), True),
        ("LPF", lambda: D.LPF(ev, 0.3 * fs), True),
        ("LPF.arr.retH", lambda: D.LPF(v, 0.2 * fs, 3, retH=True), True),
        ("PD.all", lambda: D.PD(o2, 0.4 * fs), False),
        ("PD.ase", lambda: D.PD(o1, 0.4 * fs, 0.8, 300, 50, "ase-only"), True),
        ("PD.thermal", lambda: D.PD(o1c, 0.4 * fs, 1.0, 290, 100, "thermal-only"), False),
        ("ADC", lambda: D.ADC(ev, n=4), True),
        ("ADC.n", lambda: D.ADC(v, n=3, otype="n"), True),
        ("GET_EYE", lambda: D.GET_EYE(ev, sps_resamp=32), False),
        ("SAMPLER", lambda: D.SAMPLER(ev, sps // 2), True),
        ("FBG", lambda: D.FBG(OS(inp["f2"][:, :128]), fc=T.gv.f0, vdneff=1e-4, kL=2.0, apodization="gaussian", print_params=False, retH=True), True),
        ("PPM_ENCODER", lambda: P.PPM_ENCODER(ppm_bits, 8), True),
        ("PPM_DECODER", lambda: P.PPM_DECODER(code, M), True),
        ("HDD", lambda: P.HDD(slots[: len(slots) // 4 * 4], 4), False),
        ("SDD", lambda: P.SDD(wave_n, M), True),
        ("ppm.THRESHOLD_EST", lambda: P.THRESHOLD_EST(eyeobj, 8), True),
        ("ppm.DSP.soft", lambda: P.DSP(wave_n, M, "soft"), True),
        ("ppm.DSP.hard", lambda: P.DSP(wave_n, M, "hard"), False),
        ("ppm.DSP.hard.th", lambda: P.DSP(wave_n, M, "hard", 0.5), False),
        ("ppm.BER.counter", lambda: P.BER_analizer("counter", Tx=b, Rx=BS(b[::-1].copy())), True),
        ("ppm.BER.est", lambda: P.BER_analizer("estimator", eye_obj=eyeobj, M=4, decision="hard"), True),
        ("ppm.theory_BER", lambda: P.theory_BER(np.array([1.0, 2.0]), 0.2, 0.3, 4, "soft"), True),
        ("ook.THRESHOLD_EST", lambda: O.THRESHOLD_EST(eyeobj), True),
        ("ook.DSP", lambda: O.DSP(ev, 0.4 * fs), False),
        ("ook.BER.counter", lambda: O.BER_analizer("counter", Tx=bs, Rx=BS(1 - b)), True),
        ("ook.BER.est", lambda: O.BER_analizer("estimator", eye_obj=eyeobj), True),
        ("ook.theory_BER", lambda: O.theory_BER(np.array([1.0, 3.0]), 0.2, 0.3), True),
        ("utils.db", lambda: (U.db(np.abs(v) + 1), U.dbm(np.abs(v) + 1), U.idb(v), U.idbm(v), U.Q(v), U.gaus(v, 1.0, 0.5)), True),
        ("utils.rcos", lambda: U.rcos(v / 4, 0.5, 1.0), True),
        ("utils.str2array", lambda: U.str2array("1 -2 3; 4,5,6"), True),
        ("utils.dec2bin", lambda: U.dec2bin(37, 8), True),
        ("utils.shortest_int", lambda: U.shortest_int(v, 50), True),
        ("utils.phase", lambda: (U.phase(inp["f1"][:64]), U.tau_g(inp["f1"][:64], fs), U.dispersion(inp["f1"][:64], fs, T.gv.f0)), True),
        ("utils.theory_BER", lambda: U.theory_BER(np.array([-30.0, -25.0]), "ppm", M=4, decision="hard"), True),
        ("utils.model", lambda: (U.average_voltages(-20, "ook", amplify=False, G=0), U.noise_variances(-20, "ppm", 4, 10, True, 1550e-9, 20, 5, 1e11)), True),
        ("utils.opt_th", lambda: U.optimum_threshold(0.1, 1.0, 0.01, 0.02, "ppm", 4), True),
        ("utils.nearest", lambda: (U.nearest(v, 1.0), U.norm(np.abs(v))), True),
    ]
    # blocks called with the same absolute bandwidths on every grid: a design memoised without the sampling rate in its key goes stale
    cat += [
        ("BPF.abs", lambda: D.BPF(o2, 2e9, 3), True),
        ("LPF.abs", lambda: D.LPF(ES(v), 1.5e9, 3), True),
        ("MZM.bw.abs", lambda: D.MZM(o1c, 1.0, bias=0.5, Vpi=4.0, BW=3e9), True),
        ("PD.ase.abs", lambda: D.PD(o1c, 1.2e9, 1.0, 300, 50, "ase-only", 0.0), True),
        ("DAC.bw.abs", lambda: D.DAC(b, 0.0, 1.0, "nrz", BW=1.4e9), True),
    ]
    # arrays already in the dtype a block converts to (a conversion that becomes a no-op must still not alias or mutate its argument)
    slots_bool = slots[: len(slots) // 4 * 4].astype(bool)
    slots_bool[:4] = [True, False, True, False]                     # a symbol with two ON slots and, further on, symbols with none
    cat += [
        ("HDD.bool", lambda: P.HDD(slots_bool, 4), False),
        ("PPM_ENCODER.bool", lambda: P.PPM_ENCODER(ppm_bits.astype(bool), 4), True),
        ("PPM_DECODER.bool", lambda: P.PPM_DECODER(code.data.astype(bool), M), True),
        ("DAC.bool", lambda: D.DAC(b.astype(bool), 0.0, 1.0, "nrz"), True),
        ("SDD.arr", lambda: P.SDD(wave_n.signal + wave_n.noise, M), True),
        ("SDD.es_nonoise", lambda: P.SDD(wave, M), True),
        ("ppm.DSP.soft.nonoise", lambda: P.DSP(wave, M, "soft"), True),
        ("ppm.DSP.hard.th.nonoise", lambda: P.DSP(wave, M, "hard", 0.5), False),
        ("SAMPLER.nonoise", lambda: D.SAMPLER(wave, sps // 2), True),
        ("LPF.nonoise", lambda: D.LPF(wave, 0.3 * fs), True),
        ("ADC.nonoise", lambda: D.ADC(wave, n=5), True),
        ("BPF.nonoise", lambda: D.BPF(o1c, 0.4 * fs), True),
        ("PD.nonoise", lambda: D.PD(o1c, 0.4 * fs, 1.0, 300, 50, "ase-only"), True),
        ("MZM.nonoise", lambda: D.MZM(o1c, wave.signal[: o1c.len()] if wave.len() >= o1c.len() else 1.0, bias=0.3, Vpi=4.0), True),
        ("GET_EYE.arr", lambda: D.GET_EYE(v.copy() if False else v, sps_resamp=32), False),
        ("ppm.DSP.arr", lambda: P.DSP(wave.signal, M, "soft"), True),
        ("BS.u8", lambda: T.binary_sequence(slots), True),
        ("ES.c128", lambda: T.electrical_signal(inp["f1"], inp["nz1"]), True),
        ("OS.c128", lambda: T.optical_signal(inp["f2"], inp["nz2"]), True),
    ]
    # second argument sets for the main blocks: a block that remembers anything from an earlier call shows up as order dependence
    cat += [
        ("DAC.rz.v2", lambda: D.DAC(b[::-1].copy(), 0.3, 0.7, "rz"), True),
        ("DAC.nrz.v2", lambda: D.DAC(bs, 0.0, -1.0, "nrz"), True),
        ("DAC.gauss.v2", lambda: D.DAC(b, 0.2, 0.5, "gaussian", T=max(1, sps // 2 + 1), m=1), True),
        ("MZM.v2", lambda: D.MZM(o1, 1.3, bias=-2.0, Vpi=2.5, loss_dB=0, ER_dB=35, pol="x"), True),
        ("PM.v2", lambda: D.PM(o1c, 0.7, 5.0), True),
        ("BPF.v2", lambda: D.BPF(o1, 0.2 * fs, 2), True),
        ("DM.v2", lambda: D.DM(o1, -90.0), True),
        ("FIBER.lin.v2", lambda: D.FIBER(o1, 3, 0.0, 5, 0.0, 0), True),
        ("FIBER.nl1", lambda: D.FIBER(OS(inp["f1"] * 10), 2, 0.1, 10, 0.05, 1.3, 0.02), True),
        ("LPF.v2", lambda: D.LPF(ES(v), 0.1 * fs, 2), True),
        ("SAMPLER.v2", lambda: D.SAMPLER(ES(v), 0), True),
        ("ADC.v2", lambda: D.ADC(ES(v), n=6), True),
        ("PD.ase.v2", lambda: D.PD(o2, 0.2 * fs, 0.5, 0, 1000, "ASE-ONLY", 0.0), True),
        ("PRBS.v2", lambda: D.PRBS(9, 100), True),
        ("SDD.v2", lambda: P.SDD(wave.signal, 2), True),
        ("PPM_ENCODER.v2", lambda: P.PPM_ENCODER(bs, 2), True),
        ("PPM_DECODER.v2", lambda: P.PPM_DECODER(P.PPM_ENCODER(b, 16), 16), True),
        ("ppm.theory_BER.v2", lambda: P.theory_BER(2.0, 0.3, 0.2, 16, "hard"), True),
        ("utils.shortest_int.v2", lambda: U.shortest_int(v[::3], 80), True),
    ]
    if L is not None:
        rx = np.concatenate([np.zeros(5), np.kron(np.tile(b, 3), np.ones(sps))]) + 0.05 * np.sin(np.arange(5 + 3 * n))
        cat.append(("lab.SYNC", lambda: L.SYNC(ES(rx), bs), True))
        cat.append(("lab.SYNC.arr", lambda: L.SYNC(rx, b, sps), True))
    return cat, dict(ev=ev, o1=o1, o2=o2, o1c=o1c, bs=bs, code=code, wave=wave, wave_n=wave_n, eyeobj=eyeobj, slots_bool=slots_bool, slots=slots, ppm_bits=ppm_bits, **inp)


def shared_arrays(shared):
    arrs = []
    for v in shared.values():
        arrs += flat_arrays(v)
    return arrs


def w_purity_determinism(ctx, rng, i):
    sps = int(rng.choice([4, 8, 16, 5, 7]))            # odd slot lengths too
    with core.quiet():
        T.gv.clean()
        T.gv(sps=sps, R=float(rng.choice([1e9, 1e10])), N=int(rng.choice([16, 64])), Vpi=5.0)
    inp = std_inputs(rng, sps, nbits=int(rng.choice([32, 64])))
    with core.quiet():
        cat, shared = catalogue(rng, inp)
    arrs = shared_arrays(shared)
    name, fn, deterministic = cat[i % len(cat)]
    seed = int(rng.integers(2 ** 31))
    ctx.describe(function=name, sps=sps, numpy_seed=seed)
    np.random.seed(seed)
    st0 = np.random.get_state()
    core.poison_small_blocks(i)
    before = [core.digest(a) for a in arrs]
    g0 = gv_snapshot()
    _trap["writes"] = []
    try:
        with core.quiet(), core.readonly(*arrs):
            _trap["armed"] = True
            with np.errstate(all="warn"):            # (quiet() runs with everything ignored: a seterr(...='ignore') left behind would not show)
                amb0 = core.ambient_snapshot()
                try:
                    r1 = fn()
                finally:
                    _trap["armed"] = False
                amb = core.ambient_diff(amb0, core.ambient_snapshot())
    except ValueError as e:
        if "read-only" in str(e) or "readonly" in str(e) or "WRITEABLE" in str(e):
            ctx.check("pure.args_unchanged", False, f"{name} wrote into an argument buffer: {e}")
            ctx.case(("pd", name, sps), sample=None)
            return
        raise
    st1 = np.random.get_state()
    ctx.check("pure.args_unchanged", [core.digest(a) for a in arrs] == before, f"{name} changed the sample data of an argument")
    ctx.check("pure.gv_unchanged", gv_snapshot() == g0 and not _trap["writes"], f"{name} modified the global grid (writes: {_trap['writes'][:5]})")
    # a result may depend on arguments, gv and numpy's RNG only, "whatever was called before": a call that leaves numpy's error
    # state, the warnings filters, print options, cwd or environment changed alters what later calls do (e.g. divide='raise')
    ctx.check("pure.ambient_unchanged", amb is None, f"{name} left process-global state changed: {amb}")
    outs = flat_arrays(r1)
    ctx.check("alias.none", not any(np.shares_memory(o, a) for o in outs for a in arrs), f"{name}: an output array shares memory with an argument buffer")
    d1 = result_digest(r1)
    with core.quiet():
        np.random.set_state(st0)
        core.poison_small_blocks(i + 1)          # the repeat runs on differently filled free memory: a result that reads memory it never wrote differs
        r2 = fn()
    ctx.check("det.same_state", result_digest(r2) == d1, f"{name}: repeating the call under the same numpy RNG state gives a different result")
    consumed = not (st1[0] == st0[0] and np.array_equal(st1[1], st0[1]) and st1[2:] == st0[2:])
    if deterministic:
        with core.quiet():
            np.random.seed(seed + 12345)
            np.random.random(int(rng.integers(1, 50)))
            r3 = fn()
        ctx.check("det.any_state", result_digest(r3) == d1, f"{name}: a deterministic block gives different results under a different random state")
        ctx.check("det.no_draw", not consumed, f"{name}: a deterministic block consumed random numbers")
    np.random.set_state(st1)
    ctx.case(("pd", name, sps, inp["bits"].size), sample={"function": name, "sps": sps, "numpy_seed": seed, "deterministic": deterministic} if i < 6 else None)
    ctx.bin("function", name)
    with core.quiet():
        T.gv.clean()


GIANT_BLOCKS = ["ADC.v", "ADC.n", "shortest_int", "compare", "LPF", "DM", "DAC"]


def w_giant_records(ctx, rng, i):
    """deterministic blocks on records beyond 2^23 samples (2^24 in the thorough tier): a switch to a sampled / randomised / chunked
    algorithm "for very long records" must not draw from numpy's global RNG nor make the result depend on its state."""
    name = GIANT_BLOCKS[i % len(GIANT_BLOCKS)]
    n = (2 ** 23 if ctx.tier == "quick" or i >= len(GIANT_BLOCKS) else 2 ** 24) + 8
    with core.quiet():
        T.gv.clean()
        T.gv(sps=8, R=1e9)
    v = rng.normal(0, 1, n)
    if name == "ADC.v":
        fn = lambda: D.ADC(T.electrical_signal(v), n=6)
    elif name == "ADC.n":
        fn = lambda: D.ADC(T.electrical_signal(v), n=4, otype="n")
    elif name == "shortest_int":
        fn = lambda: U.shortest_int(v, 99.0)
    elif name == "compare":
        fn = lambda: T.electrical_signal(v) > 0.25
    elif name == "LPF":
        fn = lambda: D.LPF(T.electrical_signal(v), 0.2 * T.gv.fs)
    elif name == "DM":
        fn = lambda: D.DM(T.optical_signal(v + 0j), 20.0)
    else:
        bits = (v[: n // 8] > 0).astype(np.uint8)
        fn = lambda: D.DAC(bits, 0.0, 1.0, "rz")
    seed = int(rng.integers(2 ** 31))
    ctx.describe(function=name, samples=n, numpy_seed=seed)
    d0 = core.digest(v)
    np.random.seed(seed)
    st0 = np.random.get_state()
    with core.quiet():
        r1 = fn()
    st1 = np.random.get_state()
    consumed = not (st1[0] == st0[0] and np.array_equal(st1[1], st0[1]) and st1[2:] == st0[2:])
    ctx.check("det.no_draw", not consumed, f"{name} on a record of {n} samples consumed random numbers")
    d1 = result_digest(r1)
    del r1
    with core.quiet():
        np.random.seed(seed + 777)
        np.random.random(17)
        r2 = fn()
    ctx.check("det.any_state", result_digest(r2) == d1, f"{name} on a record of {n} samples gives different results under a different random state")
    del r2
    ctx.check("pure.args_unchanged", core.digest(v) == d0, f"{name} changed the sample data of its {n}-sample argument")
    ctx.case(("giant", name, n), sample={"function": name, "samples": n})
    ctx.bin("giant.function", name)
    with core.quiet():
        T.gv.clean()


def w_history_independence(ctx, rng, i):
    """deterministic pool executed in a random order (with random draws and stochastic blocks interleaved): every output equals its canonical digest."""
    sps = 8
    base = np.random.Generator(np.random.PCG64([ctx.seed, 77]))      # the same shared inputs for every permutation
    with core.quiet():
        T.gv.clean()
        T.gv(sps=sps, R=1e9, N=32)
    inp = std_inputs(base, sps, 32)
    with core.quiet():
        cat, shared = catalogue(base, inp)
    det = [(n, f) for n, f, d in cat if d and n not in ("FBG",)]
    canon = _canon(ctx, det, inp)
    fresh = _fresh_canon(ctx)
    if fresh is not None and i < 4:
        if "seeded" not in _canon_cache:
            with core.quiet():
                st_keep = np.random.get_state()
                sd = {}
                for n_, f_, d_ in cat:
                    if not d_:
                        np.random.seed(4242)
                        sd["seeded:" + n_] = result_digest(f_())
                np.random.set_state(st_keep)
            _canon_cache["seeded"] = sd
        canon = dict(canon, **_canon_cache["seeded"])
        diff = sorted(n for n in canon if n in fresh and fresh[n] != repr(canon[n]))
        ctx.check("hist.fresh_process", not diff and len(fresh) >= len(canon) - 1,
                  f"blocks whose result in a fresh interpreter (pool run in reverse order, another PYTHONHASHSEED; stochastic blocks right after np.random.seed) differs from this process: {diff[:8]}")
    order = rng.permutation(len(det))
    sto = [(n, f) for n, f, d in cat if not d]
    np.random.seed(int(rng.integers(2 ** 31)))
    ctx.describe(order=[det[k][0] for k in order[:12]])
    g0 = gv_snapshot()
    bad = []
    with core.quiet():
        for k in order:
            if rng.integers(3) == 0:
                sto[int(rng.integers(len(sto)))][1]()          # whatever ran before must not matter
            if rng.integers(4) == 0:
                np.random.random(3)
            if rng.integers(6) == 0:
                # visit another grid, run a few blocks there on inputs of that grid, come back: nothing may be remembered
                T.gv(sps=int(rng.choice([4, 16])), R=float(rng.choice([2.5e9, 1e10])), N=8)
                inp_b = std_inputs(rng, T.gv.sps, 16)
                cat_b, _ = catalogue(rng, inp_b)
                for kk in rng.permutation(len(cat_b))[:6]:
                    if cat_b[kk][0] != "FBG":
                        cat_b[kk][1]()
                T.gv(sps=sps, R=1e9, N=32)
            n, f = det[k]
            if result_digest(f()) != canon[n]:
                bad.append(n)
    ctx.check("hist.independent", not bad, f"deterministic blocks whose result depends on what ran before: {bad}")
    ctx.check("pure.gv_unchanged", gv_snapshot() == g0, "the global grid changed while the pool ran")
    ctx.evaluations += len(det)
    ctx.case(("perm", tuple(order[:8])), sample={"order": [det[k][0] for k in order[:10]]} if i < 2 else None)
    with core.quiet():
        T.gv.clean()


_canon_cache = {}
_fresh_cache = {}


def _fresh_canon(ctx):
    """digests of the deterministic pool computed by a fresh interpreter that runs the pool in REVERSE order: a block that keeps
    anything from earlier calls (memoised designs, remembered arguments) gives a different digest there."""
    import json
    import os
    import subprocess
    import sys
    if ctx.seed in _fresh_cache:
        return _fresh_cache[ctx.seed]
    code = ("import sys, json, warnings; warnings.simplefilter('ignore')\n"
            "from rv import core; from rv.core import Ctx; import rv.props.c14 as m\n"
            "core.import_repo(); ctx = Ctx('C14', 'quick', %d); m.setup(ctx)\n"
            "print('CANON' + json.dumps(m.pool_digests(ctx, reverse=True)))\n" % ctx.seed)
    try:
        # other hash seeds: iteration order of sets / dicts keyed by strings differs between interpreters (three of them, started
        # together: a two-element set comes out in the other order with probability 1/2 per interpreter)
        procs = [subprocess.Popen([sys.executable, "-c", code], stdout=subprocess.PIPE, stderr=subprocess.PIPE, text=True, cwd=core.ROOT,
                                  env=dict(os.environ, PYTHONHASHSEED=str(1 + 3 * (ctx.seed % 1000) + j))) for j in range(3)]
        merged, lines = {}, 0
        for p_ in procs:
            so, se = p_.communicate(timeout=900)
            line = [l for l in so.splitlines() if l.startswith("CANON")]
            if not line:
                ctx.note("fresh-process pool failed: " + (se or so)[-300:])
                continue
            lines += 1
            for k_, v_ in json.loads(line[-1][5:]).items():
                merged.setdefault(k_, v_)
                if merged[k_] != v_:
                    merged[k_] = "differs between fresh interpreters: " + v_[:40]
        _fresh_cache[ctx.seed] = merged if lines else None
    except Exception as e:
        ctx.note(f"fresh-process pool failed: {e!r}")
        _fresh_cache[ctx.seed] = None
    return _fresh_cache[ctx.seed]
    code = ("import sys, json, warnings; warnings.simplefilter('ignore')\n"
            "from rv import core; from rv.core import Ctx; import rv.props.c14 as m\n"
            "core.import_repo(); ctx = Ctx('C14', 'quick', %d); m.setup(ctx)\n"
            "print('CANON' + json.dumps(m.pool_digests(ctx, reverse=True)))\n" % ctx.seed)
    try:
        # another hash seed: iteration order of sets / dicts keyed by strings differs between the two interpreters
        r = subprocess.run([sys.executable, "-c", code], capture_output=True, text=True, timeout=600, cwd=core.ROOT, env=dict(os.environ, PYTHONHASHSEED=str(1 + ctx.seed % 1000)))
        line = [l for l in r.stdout.splitlines() if l.startswith("CANON")]
        _fresh_cache[ctx.seed] = json.loads(line[-1][5:]) if line else None
        if not line:
            ctx.note("fresh-process pool failed: " + (r.stderr or r.stdout)[-300:])
    except Exception as e:
        ctx.note(f"fresh-process pool failed: {e!r}")
        _fresh_cache[ctx.seed] = None
    return _fresh_cache[ctx.seed]


def pool_digests(ctx, reverse=False):
    sps = 8
    base = np.random.Generator(np.random.PCG64([ctx.seed, 77]))
    with core.quiet():
        if reverse:
            # the fresh interpreter first works on ANOTHER grid (same absolute bandwidths), then on the pool's grid
            other = np.random.Generator(np.random.PCG64([ctx.seed, 78]))
            T.gv.clean()
            T.gv(sps=16, R=2.5e9, N=8)
            inp_b = std_inputs(other, 16, 16)
            cat_b, _ = catalogue(other, inp_b)
            np.random.seed(2)
            for n_, f_, d_ in cat_b:
                if n_ != "FBG":
                    f_()
        T.gv.clean()
        T.gv(sps=sps, R=1e9, N=32)
        inp = std_inputs(base, sps, 32)
        cat, _ = catalogue(base, inp)
        det = [(n, f) for n, f, d in cat if d and n not in ("FBG",)]
        np.random.seed(1)
        out = {}
        for n, f in (det[::-1] if reverse else det):
            out[n] = repr(result_digest(f()))
        # stochastic blocks, each right after np.random.seed(s): "repeating a call after np.random.seed(s) reproduces the output
        # bit-for-bit" — also in another interpreter (the fresh one runs under a different PYTHONHASHSEED)
        sto = [(n, f) for n, f, d in cat if not d]
        for n, f in (sto[::-1] if reverse else sto):
            np.random.seed(4242)
            out["seeded:" + n] = repr(result_digest(f()))
    return out


def _canon(ctx, det, inp):
    key = ctx.seed
    if key not in _canon_cache:
        with core.quiet():
            np.random.seed(1)
            _canon_cache[key] = {n: result_digest(f()) for n, f in det}
    return _canon_cache[key]


WORKLOADS = [
    Workload("history", w_history, 4000, 200000),
    Workload("purity_determinism", w_purity_determinism, 1100, 22000, budget=120),
    Workload("history_independence", w_history_independence, 40, 800, budget=300),
    Workload("giant_records", w_giant_records, len(GIANT_BLOCKS), 2 * len(GIANT_BLOCKS), budget=600, exhaustive=True),
]


def classify(v):
    return None
