"""C07 — linear propagation (DM, FIBER gamma=0) is an exact all-pass, additive in length."""
import math

import numpy as np

from .. import core, ref, spies
from ..run import Workload

RULE = ("noise-free complex fields of lengths {2,3,17,64,255,256,1001,4096}, 1/2 polarisations with different rows, D and beta2*L in "
        "+-[1e-2,1e5] ps^2, beta3 in +-[0,10], alpha in [0,0.5] dB/km, L in (0,200] km, gv.fs in {1e9..1e12}; relations: inverse, "
        "composition, FIBER=DM, two spans = one span, loss law, retH. Non-trivial: length >= 3 and a non-constant field; distinct by "
        "(device, n_pol, length, fs, parameter decades and signs).")
ASSUMPTIONS = ["the library converts dB/km to 1/km with the textbook constant 4.343 (exact 4.342944...): the absolute loss law is asserted to "
               "2e-5 of the exponent, the *shape* of the output (after removing its scalar gain) at 1e-9",
               "fields carrying a noise component: only shape preservation is asserted (noise is outside the statement)"]
TOLERANCES = {"shape_rtol": 1e-9, "loss_exponent_rel": 2e-5, "dm_energy_rtol": "max(1e-12, 3e-13*sqrt(N)): rounding of an N-point FFT pair (thorough tier, seed 5, measured 1.7e-12 at N=131075 on the pinned tree: a false alarm of the fixed 1e-12)"}
MIN_CHECKS = {"dm.post": 300, "fiber.post": 300, "compose": 200}      # (the frame probe "one linear step" is an optional white-box cross-check, not a deciding monitor)
SHARDS = {"quick": 4}

D = T = None
LENGTHS = [2, 3, 17, 64, 255, 256, 1001, 4096]


def relerr(a, b):
    a, b = np.asarray(a), np.asarray(b)
    if a.shape != b.shape:
        return np.inf
    sc = max(float(np.max(np.abs(b))), 1e-300)
    return float(np.max(np.abs(a - b))) / sc


def setup(ctx):
    global D, T
    import opticomlib.devices as dv
    import opticomlib.typing as ty
    D, T = dv, ty

    def dm_post(orig):
        def wrapper(input, D_, retH=False):
            r = orig(input, D_, retH)
            if core.in_monitor():
                return r
            with core.monitor_scope():
                ctx.call("dm.post")
                out = r[0] if retH else r
                ok = isinstance(out, T.optical_signal) and out.n_pol == input.n_pol and out.signal.shape == input.signal.shape
                ctx.check("dm.shape", ok, "DM changed class / polarisation layout / length")
                if ok and input.noise is None:
                    H = ref.allpass_response(input.len(), T.gv.fs, b2L_ps2=D_)
                    want = ref.apply_response(input.signal, H)
                    ctx.check("dm.post", relerr(out.signal, want) <= 1e-9, f"DM({D_}) output differs from exp(-j*D*w^2/2) filter (rel err {relerr(out.signal, want):.3g})")
                    e_in = np.sum(np.abs(input.signal) ** 2, axis=-1)
                    e_out = np.sum(np.abs(out.signal) ** 2, axis=-1)
                    ctx.check("dm.energy", np.allclose(e_out, e_in, rtol=max(1e-12, 3e-13 * np.sqrt(input.len())), atol=0), "DM does not conserve energy per polarisation", e_in=e_in, e_out=e_out)
                    if retH:
                        Hs = np.fft.ifftshift(np.asarray(r[1]))
                        ctx.check("dm.retH", Hs.shape == H.shape and relerr(Hs, H) <= 1e-9, "DM retH does not match the filter actually applied")
            return r
        return wrapper

    def fiber_post(orig):
        def wrapper(input, length, alpha=0.0, beta_2=0.0, beta_3=0.0, gamma=0.0, phi_max=0.05, show_progress=False):
            if core.in_monitor() or gamma != 0:
                return orig(input, length, alpha, beta_2, beta_3, gamma, phi_max, show_progress)
            with spies.fiber_probe(orig) as probe:
                r = orig(input, length, alpha, beta_2, beta_3, gamma, phi_max, show_progress)
            with core.monitor_scope():
                ctx.call("fiber.post")
                ok = isinstance(r, T.optical_signal) and r.n_pol == input.n_pol and r.signal.shape == input.signal.shape
                ctx.check("fiber.shape", ok, "FIBER changed class / polarisation layout / length")
                if probe.records:
                    ctx.check("probe.one_step", len(probe.records) == 1 and abs(probe.records[0].get("h", np.nan) - length) <= 1e-12 * length,
                              f"FIBER(gamma=0) took {len(probe.records)} steps {[rec.get('h') for rec in probe.records[:4]]}, expected one step of {length}")
                else:
                    ctx.not_observed("probe.one_step")
                if ok:
                    aL = alpha * length
                    H = ref.allpass_response(input.len(), T.gv.fs, b2L_ps2=beta_2 * length, b3L_ps3=beta_3 * length, aL_dB=0.0)
                    want = ref.apply_response(input.signal, H)          # lossless shape
                    e_in = np.sum(np.abs(input.signal) ** 2, axis=-1)
                    e_out = np.sum(np.abs(r.signal) ** 2, axis=-1)
                    ex = aL * math.log(10) / 10
                    good = np.all(e_in > 0)
                    if good:
                        ctx.check("fiber.loss", np.all(np.abs(np.log(e_out / e_in) + ex) <= 2e-5 * ex + 1e-9), f"power leaving the fibre != input power * 10^(-alpha*L/10): ln ratio {np.log(e_out / e_in)} vs {-ex}")
                        g = np.sqrt(e_out / e_in)
                        shape_out = r.signal / (g[:, None] if r.signal.ndim == 2 else g)
                        ctx.check("fiber.post", relerr(shape_out, want) <= 1e-9, f"FIBER(gamma=0) output shape differs from the all-pass filter (rel err {relerr(shape_out, want):.3g})", beta_2=beta_2, beta_3=beta_3, length=length)
                    ctx.check("fiber.noise_kept", (r.noise is None) == (input.noise is None), "FIBER dropped or invented a noise component")
            return r
        return wrapper

    core.attach(dv, "DM", dm_post)
    core.attach(dv, "FIBER", fiber_post)


def signed_log(rng, lo, hi):
    return float(10 ** rng.uniform(lo, hi)) * (1 if rng.integers(2) else -1)


def make_field(rng, n, n_pol):
    shape = (2, n) if n_pol == 2 else (n,)
    kind = int(rng.integers(4))
    t = np.arange(n)
    if kind == 3:      # phase-coded fields with an exactly flat envelope (BPSK +-a, QPSK (+-1+-j)a, the fs/4 tone 1,j,-1,-j): not CW, they disperse
        sub = int(rng.integers(3))
        if sub == 0:
            s = (2.0 * rng.integers(0, 2, shape) - 1) + 0j
        elif sub == 1:
            s = (2.0 * rng.integers(0, 2, shape) - 1) + 1j * (2.0 * rng.integers(0, 2, shape) - 1)
        else:
            s = np.broadcast_to(np.array([1, 1j, -1, -1j])[t % 4], shape).copy()
        if n >= 8 and rng.integers(2):
            s = np.repeat(s[..., : (n + 3) // 4], 4, axis=-1)[..., :n]          # 4 samples per symbol
    elif kind == 0:
        s = core.lopsided(rng, rng.normal(0, 1, shape) + 1j * rng.normal(0, 1, shape))
    elif kind == 1:    # band-limited pulse train
        s = np.zeros(shape, complex)
        for _ in range(3):
            c, w = rng.uniform(0, n), rng.uniform(1, max(2, n / 8))
            s = s + rng.normal(0, 1, (shape[0], 1) if n_pol == 2 else ()) * np.exp(-((t - c) / w) ** 2) * np.exp(1j * rng.uniform(0, 6))
    else:
        s = np.exp(2j * np.pi * rng.integers(0, n) * t / n) * (1 + 0.3 * rng.normal(0, 1, shape))
    s = s * (10 ** rng.uniform(-4, 0) if rng.integers(8) else 10 ** float(rng.choice([-13, -9, 3])))
    dt_kind = int(rng.integers(8))
    if dt_kind == 0:
        s = np.real(s).copy()                              # real-dtype field
    elif dt_kind == 1:
        s = rng.integers(-9, 10, shape)                    # integer-dtype field
    if n_pol == 2 and rng.integers(4) == 0:
        s = s.astype(complex) if s.dtype.kind in 'iu' else s
        s[1] = s[1] * 0.01
    return T.optical_signal(s)


def set_fs(rng):
    fs = float(rng.choice([1e9, 1.6e10, 8e10, 1e11, 1e12, 1e12, 1e13, 8e13]))
    sps = int(rng.choice([4, 8, 16]))
    with core.quiet():
        if rng.integers(5) == 0:      # a sampling rate that is not an integer multiple of the slot rate: everything follows gv.fs, not sps*R
            T.gv(R=fs / float(rng.choice([2.5, 3.3, 7.6])), fs=fs)
        else:
            T.gv(sps=sps, fs=fs)
    return float(T.gv.fs)


def w_dm(ctx, rng, i):
    n = core.long_or(rng, i, LENGTHS[i % len(LENGTHS)], every=32, huge=False)
    n_pol = int(rng.integers(1, 3))
    fs = set_fs(rng)
    x = make_field(rng, n, n_pol)
    # keep |D| w_max^2 within a range where the relation checks are meaningful at any fs: scale D in units of 1/w_max^2
    wmax_ps = np.pi * fs * 1e-12
    def draw_D():        # absolute (ps^2), in units of 1/w_max^2, or *thin*: a slice whose largest phase is 1e-7 … 1e-2 rad ("all D": nothing is negligible —
        k = int(rng.integers(5)) if fs <= 1e12 else int(rng.integers(2, 5))     # a thousand such slices are a slab). Above 1 THz only scaled values: 1e5 ps^2 would be 1e9 rad, whose float64 rounding alone is 1e-7
        return signed_log(rng, -2, 5) if k < 2 else signed_log(rng, -2, 1.5) / wmax_ps ** 2 if k < 4 else signed_log(rng, -7, -2) / wmax_ps ** 2
    D1, D2 = draw_D(), draw_D()
    ctx.describe(n=n, n_pol=n_pol, fs=fs, D1=D1, D2=D2)
    d0 = core.digest(x.signal)
    with core.quiet():
        y1, H = D.DM(x, D1, retH=True)               # dm.post decides values, energy and retH
        back = D.DM(y1, -D1)
        ctx.check("inverse", relerr(back.signal, x.signal) <= 1e-9, f"DM(-D) does not undo DM(D) (rel err {relerr(back.signal, x.signal):.3g})")
        y12 = D.DM(D.DM(x, D2), D1)
        ysum = D.DM(x, D1 + D2)
        ctx.check("compose", relerr(y12.signal, ysum.signal) <= 1e-9, f"DM(D1) after DM(D2) != DM(D1+D2) (rel err {relerr(y12.signal, ysum.signal):.3g})")
        # FIBER(L, beta2) == DM(beta2*L)
        L = float(10 ** rng.uniform(-1, 2.3))
        b2 = D1 / L
        yf = D.FIBER(x, L, 0.0, b2, 0.0, 0.0)
        ctx.check("fiber_eq_dm", relerr(yf.signal, y1.signal) <= 1e-9, f"FIBER(L, beta2) != DM(beta2*L) (rel err {relerr(yf.signal, y1.signal):.3g})")
        # retH vs the filter actually applied
        X, Y = np.fft.fft(x.signal, axis=-1), np.fft.fft(y1.signal, axis=-1)
        Hs = np.fft.ifftshift(H)
        big = np.abs(X) > 1e-6 * np.abs(X).max()
        ratio = np.where(big, Y / np.where(big, X, 1), 0)
        ctx.check("dm.retH_applied", np.all(np.abs(ratio - np.where(big, np.broadcast_to(Hs, X.shape), 0)) <= 1e-6), "DM retH differs from fft(out)/fft(in)")
        # with a noise component: layout preserved
        xn = T.optical_signal(x.signal, x.signal * 0.01)
        yn = D.DM(xn, D1)
        ctx.check("dm.shape", yn.signal.shape == x.signal.shape and yn.noise is not None and yn.noise.shape == x.signal.shape and yn.n_pol == n_pol, "DM with noise: layout not preserved")
    ctx.check("input_unchanged", core.digest(x.signal) == d0, "DM/FIBER modified the input")
    ctx.probe("dm.electrical_input", D.DM, T.electrical_signal(np.ones(8)), 1.0)        # (probe: the statement has no rejection clause)
    ctx.case(("dm", n_pol, n, fs, int(np.sign(D1)), round(math.log10(abs(D1)))), nontrivial=n >= 3, sample={"n": n, "n_pol": n_pol, "fs": fs, "D1": D1, "D2": D2} if i < 4 else None)
    ctx.bin("length_parity", "odd" if n % 2 else "even")


def w_fiber(ctx, rng, i):
    n = core.long_or(rng, i, LENGTHS[i % len(LENGTHS)], every=32, huge=False)
    n_pol = int(rng.integers(1, 3))
    fs = set_fs(rng)
    x = make_field(rng, n, n_pol)
    wmax_ps = np.pi * fs * 1e-12
    L1 = float(10 ** rng.uniform(-2, 2.3))
    L2 = float(10 ** rng.uniform(-2, 2.3))
    Ltot = L1 + L2
    b2 = signed_log(rng, -2, 1.4) if rng.integers(3) else 0.0
    if rng.integers(2) or fs > 1e12:
        b2 = b2 / max(1.0, abs(b2) * Ltot * wmax_ps ** 2 / 50)        # keep the accumulated phase moderate at high fs
    b3 = (signed_log(rng, -3, 1) if rng.integers(2) else 0.0)
    b3 = b3 / max(1.0, abs(b3) * Ltot * wmax_ps ** 3 / 300)
    alpha = float(rng.uniform(0, 0.5)) if rng.integers(4) else 0.0
    ctx.describe(n=n, n_pol=n_pol, fs=fs, L1=L1, L2=L2, beta_2=b2, beta_3=b3, alpha=alpha)
    d0 = core.digest(x.signal)
    with core.quiet():
        y1 = D.FIBER(x, L1, alpha, b2, b3)                    # fiber.post decides
        y12 = D.FIBER(y1, L2, alpha, b2, b3)
        yt = D.FIBER(x, Ltot, alpha, b2, b3)
        ctx.check("compose", relerr(y12.signal, yt.signal) <= 1e-9, f"two spans != one span of the summed length (rel err {relerr(y12.signal, yt.signal):.3g})")
        # phi_max is irrelevant for a linear fibre; gamma passed explicitly as 0 / 0.0
        y3 = D.FIBER(x, L1, alpha, b2, b3, 0, float(rng.uniform(5e-4, 0.1)))
        ctx.check("compose", np.array_equal(y3.signal, y1.signal), "linear FIBER output depends on phi_max")
        xn = T.optical_signal(x.signal, x.signal * 0.01)
        yn = D.FIBER(xn, L1, alpha, b2, b3)
        ctx.check("fiber.shape", yn.signal.shape == x.signal.shape and yn.noise is not None and yn.noise.shape == x.signal.shape, "FIBER with noise: layout not preserved")
    ctx.check("input_unchanged", core.digest(x.signal) == d0, "FIBER modified the input")
    ctx.probe("fiber.electrical_input", D.FIBER, T.electrical_signal(np.ones(8)), 1.0)
    ctx.case(("fiber", n_pol, n, fs, b2 != 0, b3 != 0, alpha > 0, round(math.log10(Ltot))), nontrivial=n >= 3,
             sample={"n": n, "n_pol": n_pol, "fs": fs, "L1": L1, "L2": L2, "beta_2": b2, "beta_3": b3, "alpha": alpha} if i < 4 else None)
    ctx.bin("fiber.terms", f"b2={b2 != 0},b3={b3 != 0},alpha={alpha > 0}")


def w_two_grids(ctx, rng, i):
    """identical DM / FIBER arguments (same samples, same D, same betas) on two sampling rates and back: the filter must follow gv.fs."""
    n = core.long_or(rng, i, int(rng.choice([64, 255, 256, 1001])), huge=False)
    n_pol = int(rng.integers(1, 3))
    x = make_field(rng, n, n_pol)
    fa, fb = (float(v) for v in rng.choice([1e10, 1.6e10, 4e10, 8e10, 1e11], 2, replace=False))
    wmax = np.pi * max(fa, fb) * 1e-12
    Dv = signed_log(rng, -2, 1.5) / wmax ** 2
    L = float(10 ** rng.uniform(-1, 2))
    b2, b3, alpha = Dv / L, signed_log(rng, -3, 0) / (L * wmax ** 3) * 10, float(rng.uniform(0, 0.5))
    ctx.describe(n=n, n_pol=n_pol, fs_sequence=[fa, fb, fa], D=Dv, L=L, beta_2=b2, beta_3=b3, alpha=alpha)
    outs = []
    for fs in (fa, fb, fa):
        with core.quiet():
            T.gv(sps=8, fs=fs)
            y1, H = D.DM(x, Dv, retH=True)               # dm.post / dm.retH decide
            y2 = D.FIBER(x, L, alpha, b2, b3)            # fiber.post / fiber.loss decide
        outs.append((y1.signal, y2.signal))
    ctx.check("grid.history", np.array_equal(outs[0][0], outs[2][0]) and np.array_equal(outs[0][1], outs[2][1]), f"DM/FIBER result at fs={fa:.3g} differs after a visit to fs={fb:.3g}")
    ctx.case(("grids", n, n_pol, fa, fb), sample=dict(n=n, fs_sequence=[fa, fb, fa]) if i < 2 else None)


def FORM_TWINS():
    import opticomlib.devices as dv
    return [(dv, ["DM", "FIBER"])]


WORKLOADS = [
    Workload("dm", w_dm, 1000, 60000),
    Workload("fiber", w_fiber, 1000, 60000),
    Workload("two_grids", w_two_grids, 200, 10000),
]


def classify(v):
    return None
