"""C06 — MZM obeys its passive transfer function; PM / laser phase terms are pure rotations."""
import numpy as np

from .. import core
from ..run import Workload

RULE = ("complex / real input fields (1 and 2 polarisations, with and without noise, incl. noise vectors summing to exactly 0), random / "
        "sinusoidal / constant drives as scalar, ndarray, list and electrical_signal, bias in [-2Vpi,2Vpi], Vpi in (0.5,10], loss in "
        "[0,20] dB, ER in [0,60] dB, both pol settings; lasers with p in [-30,30] dBm, linewidth None or 1e3..1e8, |df| <= fs/2. "
        "Non-trivial: >= 4 samples and a non-constant drive or noise or 2-pol; distinct by (device, n_pol, noise kind, drive form, parameter bins).")
ASSUMPTIONS = ["drives are noise-free electrical signals (only the .signal of a drive is specified to matter)",
               "laser spectral-peak clause asserted only without phase noise (a random-walk phase legitimately moves the peak bin)"]
MIN_CHECKS = {"mzm.post": 500, "pm.post": 300, "laser.post": 100, "mzm.relations": 100, "pm.compose": 100}
SHARDS = {"quick": 4}

D = T = None


def transfer(u, bias, Vpi, loss_dB, ER_dB):
    th = np.pi * (np.asarray(u) + bias) / (2 * Vpi)
    return np.sqrt(10 ** (-loss_dB / 10)) * (np.cos(th) + 1j * 10 ** (-ER_dB / 20) * np.sin(th))


def drive_array(el, n):
    if isinstance(el, T.electrical_signal):
        u = el.signal
    else:
        u = np.asarray(el)
    return np.broadcast_to(np.real(u) if np.iscomplexobj(u) and np.all(np.imag(u) == 0) else u, (n,)) if np.ndim(u) == 0 or np.size(u) == 1 else np.asarray(u)


def close(a, b, rtol=1e-9):
    a, b = np.asarray(a), np.asarray(b)
    if a.shape != b.shape:
        return False
    sc = max(float(np.max(np.abs(b))) if b.size else 0.0, 1e-300)
    return bool(np.all(np.abs(a - b) <= rtol * sc))


def phase_tol(*phases, base=1e-9):
    """tolerance for comparing exp(j*phase): one rounding of a phase of magnitude |phi| already moves the phasor by eps*|phi|,
    whatever the order in which pi, u and Vpi are combined (large pedestals, tiny Vpi)."""
    m = sum(float(np.max(np.abs(ph))) if np.size(ph) else 0.0 for ph in phases)
    return max(base, 64 * np.finfo(float).eps * m)


def pick_vpi(rng):
    """Vpi > 0: ordinary values, and in a quarter of the cases extreme ones (every drive is generated relative to Vpi)"""
    c = int(rng.integers(8))
    if c == 0:
        return float(rng.choice([1e-12, 1e-9, 1e-6, 1e-3, 1e3, 1e6]))
    if c == 1:
        return float(10 ** rng.uniform(-12, 6))
    return float(rng.uniform(0.5, 10))


def setup(ctx):
    global D, T
    import opticomlib.devices as dv
    import opticomlib.typing as ty
    D, T = dv, ty

    def mzm_post(orig):
        def wrapper(op_input, el_input, bias=0.0, Vpi=5.0, loss_dB=0.0, ER_dB=26.0, pol="x", BW=None):
            r = orig(op_input, el_input, bias, Vpi, loss_dB, ER_dB, pol, BW)
            if core.in_monitor():
                return r
            with core.monitor_scope(), core.quiet():
                ctx.call("mzm.post")
                n = op_input.len()
                u = drive_array(el_input, n)
                h = transfer(np.real(u), bias, Vpi, loss_dB, ER_dB)
                tol = phase_tol(np.pi * (np.real(u).astype(float) + bias) / (2 * Vpi))
                ws = op_input.signal * h
                wn = None if op_input.noise is None else op_input.noise * h
                if op_input.n_pol == 2:
                    dead = 1 if pol == "x" else 0
                    ws = ws.copy()
                    ws[dead] = 0
                    if wn is not None:
                        wn = wn.copy()
                        wn[dead] = 0
                if BW is not None:
                    ref_ = D.BPF(T.optical_signal(ws, wn), BW)
                    ws, wn = ref_.signal, ref_.noise
                ok = isinstance(r, T.optical_signal) and r.n_pol == op_input.n_pol and r.len() == n
                ctx.check("mzm.post", ok, "MZM changed class / n_pol / length")
                if ok:
                    ctx.check("mzm.post", close(r.signal, ws, tol), "MZM output signal != sqrt(loss)*(cos(theta)+j*10^(-ER/20)*sin(theta)) * input", Vpi=Vpi, bias=bias, loss_dB=loss_dB, ER_dB=ER_dB, pol=pol, BW=BW)
                    ctx.check("mzm.noise", (r.noise is None) == (wn is None) and (wn is None or close(r.noise, wn, tol)), "MZM: accompanying noise is not modulated exactly like the signal", pol=pol, n_pol=op_input.n_pol)
                    if BW is None:
                        lim = np.sqrt(10 ** (-loss_dB / 10)) * np.abs(op_input.signal)
                        ctx.check("mzm.passive", np.all(np.abs(r.signal) <= lim * (1 + 1e-9) + 1e-300), "MZM amplifies: |out| > sqrt(loss)*|in| at some sample")
            return r
        return wrapper

    def pm_post(orig):
        def wrapper(op_input, el_input, Vpi=5.0):
            r = orig(op_input, el_input, Vpi)
            if core.in_monitor():
                return r
            with core.monitor_scope():
                ctx.call("pm.post")
                n = op_input.len()
                u = np.real(drive_array(el_input, n))
                rot = np.exp(1j * np.pi * u / Vpi)
                tol = phase_tol(np.pi * u.astype(float) / Vpi)
                ok = isinstance(r, T.optical_signal) and r.n_pol == op_input.n_pol and r.len() == n
                ctx.check("pm.post", ok, "PM changed class / n_pol / length")
                if ok:
                    ctx.check("pm.post", close(r.signal, op_input.signal * rot, tol), "PM output signal != input * exp(j*pi*u/Vpi)", Vpi=Vpi)
                    ctx.check("pm.noise", (r.noise is None) == (op_input.noise is None) and (op_input.noise is None or close(r.noise, op_input.noise * rot, tol)),
                              "PM: noise component is not rotated like the signal (or was dropped)", noise_sum=None if op_input.noise is None else complex(np.sum(op_input.noise)))
                    tin = op_input.signal + (op_input.noise if op_input.noise is not None else 0)
                    tout = r.signal + (r.noise if r.noise is not None else 0)
                    ctx.check("pm.power", close(np.abs(tout) ** 2, np.abs(tin) ** 2), "PM changed the instantaneous power of the total field")
            return r
        return wrapper

    def laser_post(orig):
        def wrapper(t, p, lw=None, rin=None, df=None):
            r = orig(t, p, lw, rin, df)
            if core.in_monitor():
                return r
            with core.monitor_scope():
                ctx.call("laser.post")
                ok = isinstance(r, T.optical_signal) and r.len() == np.size(t) and r.n_pol == 1
                ctx.check("laser.post", ok, "LASER output is not a 1-pol optical_signal of len(t)")
                if ok and rin is None:
                    P = 10 ** (p / 10 - 3)
                    ctx.check("laser.post", np.allclose(np.abs(r.signal) ** 2, P, rtol=1e-9, atol=0), f"LASER without RIN: |E|^2 != P={P!r} at every sample", lw=lw, df=df)
            return r
        return wrapper

    core.attach(dv, "MZM", mzm_post)
    core.attach(dv, "PM", pm_post)
    core.attach(dv, "LASER", laser_post)


# ------------------------------------------------------------------------------------------
def make_field(rng, n, n_pol, noise_kind, real=False):
    shape = (2, n) if n_pol == 2 else (n,)
    amp = 10 ** rng.uniform(-4, 0) if rng.integers(8) else 10 ** float(rng.choice([-13, -10, -8, 3]))     # incl. extreme absolute scales
    s = rng.normal(0, 1, shape) * amp
    if real and rng.integers(3) == 0:
        s = rng.integers(-5, 6, shape)            # integer-valued (int dtype) field
    if not real:
        s = s + 1j * rng.normal(0, 1, shape) * amp
    nz = None
    if noise_kind == "random":
        nz = (rng.normal(0, 1, shape) + (0 if real else 1j * rng.normal(0, 1, shape))) * amp * 0.1
    elif noise_kind == "sum_zero":
        half = rng.integers(1, 9, shape).astype(float) * amp * 0.01       # exactly representable, sums to exactly 0
        nz = half.copy()
        nz[..., n // 2:] = 0
        nz[..., n // 2:n // 2 * 2] = -half[..., :n // 2]
        if n % 2:
            nz[..., -1] = 0
        nz = nz + 0j if not real else nz
    elif noise_kind == "zeros":
        nz = np.zeros(shape, dtype=float if real else complex)
    s = core.degenerate_rows(rng, s, every=8, rows_only=True)
    if noise_kind == "random":
        nz = core.degenerate_rows(rng, nz, every=5, rows_only=True)       # noise in one polarisation only, the same noise in both, ...
    return T.optical_signal(s, nz)


def make_drive(rng, n, Vpi):
    kinds = ["random", "sine", "const", "bits", "ramp", "pedestal", "fft_residue"]
    if 0.1 <= Vpi <= 100:
        kinds += ["int_levels", "bool_levels"]                   # drives in volts, not relative to Vpi
    kind = str(rng.choice(kinds))
    if kind == "fft_residue":     # a real voltage that went through an FFT-based shaping filter: complex dtype, imaginary part ~1e-16 V (what DAC(..., 'gaussian') returns)
        base = Vpi * rng.uniform(0.1, 2) * np.sin(2 * np.pi * rng.uniform(0.01, 0.4) * np.arange(n) + rng.uniform(0, 6))
        u = np.fft.ifft(np.fft.fft(base) * np.exp(-(6 * np.fft.fftfreq(n)) ** 2))          # a real, even filter: the imaginary part left is rounding only
        return kind, (u if np.iscomplexobj(u) and n > 1 else base)
    if kind == "pedestal":                                       # a small modulation riding on a huge offset
        u = Vpi * (float(10 ** rng.uniform(2, 7)) + rng.uniform(0.1, 2) * np.sin(2 * np.pi * rng.uniform(0.01, 0.4) * np.arange(n)))
    elif kind == "random":
        u = rng.normal(0, Vpi, n)
    elif kind == "sine":
        u = Vpi * rng.uniform(0.1, 2) * np.sin(2 * np.pi * rng.uniform(0.01, 0.4) * np.arange(n) + rng.uniform(0, 6))
    elif kind == "const":
        u = np.full(n, rng.uniform(-2 * Vpi, 2 * Vpi))
    elif kind == "bits":
        u = np.repeat(rng.integers(0, 2, (n + 3) // 4), 4)[:n] * Vpi
    elif kind == "int_levels":
        return kind, rng.integers(-6, 7, n)                      # integer dtype drive (volts)
    elif kind == "bool_levels":
        return kind, rng.integers(0, 2, n).astype(bool)          # boolean drive
    else:
        u = np.linspace(-2 * Vpi, 2 * Vpi, n)
    return kind, u.astype(float)


def drive_forms(u, which):
    if which == "ndarray":
        return u.copy()
    if which == "list":
        return u.tolist()
    if which == "esignal":
        return T.electrical_signal(u)
    raise KeyError(which)


def w_mzm(ctx, rng, i):
    T.gv(sps=int(rng.choice([4, 8, 16])), R=float(rng.choice([1e9, 1e10])))
    n = core.long_or(rng, i, int(rng.choice([4, 5, 16, 63, 256, 1000])))
    n_pol = int(rng.integers(1, 3))
    noise_kind = str(rng.choice(["none", "random", "random", "sum_zero", "zeros"]))
    x = make_field(rng, n, n_pol, noise_kind, real=bool(rng.integers(5) == 0))
    Vpi = pick_vpi(rng)
    bias = float(rng.uniform(-2 * Vpi, 2 * Vpi))
    loss = float(rng.uniform(0, 20)) if rng.integers(4) else 0.0
    ER = float(rng.uniform(0, 60)) if i % 9 else float([0.0, 60.0, 26.0][i // 9 % 3])
    pol = "xy"[int(rng.integers(2))]
    dkind, u = make_drive(rng, n, Vpi)
    ctx.describe(n=n, n_pol=n_pol, noise=noise_kind, Vpi=Vpi, bias=bias, loss_dB=loss, ER_dB=ER, pol=pol, drive=dkind)
    d0 = core.digest(x.signal, x.noise, u)
    with core.quiet():
        outs = {}
        for form in ("ndarray", "list", "esignal"):
            outs[form] = D.MZM(x, drive_forms(u, form), bias=bias, Vpi=Vpi, loss_dB=loss, ER_dB=ER, pol=pol)   # mzm.post decides each
        for form in ("list", "esignal"):
            ctx.check("mzm.forms", np.array_equal(outs[form].signal, outs["ndarray"].signal) and ((outs[form].noise is None and outs["ndarray"].noise is None) or np.array_equal(outs[form].noise, outs["ndarray"].noise)),
                      f"MZM result differs between an ndarray drive and a {form} drive of equal content")
        if dkind == "const":
            sc = D.MZM(x, float(u[0]), bias=bias, Vpi=Vpi, loss_dB=loss, ER_dB=ER, pol=pol)
            ctx.check("mzm.forms", close(sc.signal, outs["ndarray"].signal), "MZM result differs between a scalar drive and a constant array")
        if u.dtype.kind in "ib":
            asf = D.MZM(x, u.astype(float), bias=bias, Vpi=Vpi, loss_dB=loss, ER_dB=ER, pol=pol)
            ctx.check("mzm.forms", close(asf.signal, outs["ndarray"].signal), "MZM result differs between an integer/boolean drive and the same voltages as floats")
            D.MZM(x, int(rng.integers(-5, 6)), bias=bias, Vpi=Vpi, loss_dB=loss, ER_dB=ER, pol=pol)      # python int scalar drive: mzm.post decides
        # periodicity of the output power in the drive: u -> u + 2*Vpi
        k = int(rng.choice([-2, -1, 1, 2]))
        shifted = D.MZM(x, u.astype(float) + 2 * Vpi * k, bias=bias, Vpi=Vpi, loss_dB=loss, ER_dB=ER, pol=pol)
        ctx.check("mzm.relations", close(np.abs(shifted.signal) ** 2, np.abs(outs["ndarray"].signal) ** 2, rtol=max(1e-8, 8 * phase_tol(np.pi * (u.astype(float) + bias) / (2 * Vpi), [np.pi * k]))), "MZM output power is not 2*Vpi-periodic in the drive")
        # with a bandwidth: equals BPF of the closed form (postcondition handles it)
        if n >= 64 and rng.integers(3) == 0:
            D.MZM(x, u, bias=bias, Vpi=Vpi, loss_dB=loss, ER_dB=ER, pol=pol, BW=float(rng.uniform(0.1, 0.8)) * T.gv.fs)
        ctx.check("mzm.input_unchanged", core.digest(x.signal, x.noise, u) == d0, "MZM modified its inputs")
        # mismatched lengths / wrong types
        ctx.raises("mzm.errors", ValueError, D.MZM, x, np.zeros(n + int(rng.integers(1, 5))))
        ctx.raises("mzm.errors", ValueError, D.MZM, x, T.electrical_signal(np.zeros(n + 2)))
        # every mismatch, in both directions and in every container: shorter drives, a multiple of the field length, and a drive of
        # several samples on a ONE-sample field (only a one-sample DRIVE broadcasts)
        for bad_len in {max(2, n - 1) if n > 2 else n + 3, 2 * n, n + 1}:
            if bad_len != n and bad_len != 1:
                d_bad = rng.normal(0, 1, bad_len)
                ctx.raises("mzm.errors", ValueError, D.MZM, x, [d_bad, d_bad.tolist(), T.electrical_signal(d_bad)][int(rng.integers(3))])
        x1 = make_field(rng, 1, n_pol, noise_kind if noise_kind != "sum_zero" else "random")
        m_bad = int(rng.integers(2, 9))
        d1 = rng.normal(0, 1, m_bad)
        ctx.raises("mzm.errors", ValueError, D.MZM, x1, [d1, d1.tolist(), T.electrical_signal(d1)][int(rng.integers(3))])
        ctx.raises("pm.errors", ValueError, D.PM, x1, d1)
        ctx.probe("mzm.electrical_input", D.MZM, T.electrical_signal(np.ones(n)), u)        # (probe: the statement names one rejection only — mismatched lengths)
        ctx.probe("mzm.other_pol", D.MZM, x, u, pol=str(rng.choice(["z", "X", "xy", ""])))
    ctx.case(("mzm", n_pol, noise_kind, dkind, n, round(Vpi), round(loss / 5), round(ER / 10), pol), nontrivial=dkind != "const" or noise_kind != "none" or n_pol == 2,
             sample={"n": n, "n_pol": n_pol, "noise": noise_kind, "Vpi": Vpi, "bias": bias, "loss_dB": loss, "ER_dB": ER, "pol": pol, "drive": dkind} if i < 4 else None)
    ctx.bin("mzm.noise", noise_kind)
    ctx.bin("mzm.n_pol", n_pol)


def w_mzm_er(ctx, rng, i):
    """on/off power ratio equals ER_dB: CW input, drive at the transmission maximum / minimum."""
    n = 8
    n_pol = int(rng.integers(1, 3))
    Vpi = pick_vpi(rng)
    ER = float(rng.uniform(0, 60))
    loss = float(rng.uniform(0, 20))
    bias = float(rng.uniform(-Vpi, Vpi))
    P = 10 ** rng.uniform(-6, -1)
    x = T.optical_signal(np.full(n, np.sqrt(P)) * np.exp(1j * rng.uniform(0, 6)), n_pol=n_pol)
    pol = "xy"[int(rng.integers(2))]
    row = (0 if pol == "x" else 1) if n_pol == 2 else None
    ctx.describe(n_pol=n_pol, Vpi=Vpi, ER_dB=ER, loss_dB=loss, bias=bias, pol=pol)
    with core.quiet():
        k = int(rng.integers(-2, 3))
        on = D.MZM(x, -bias + 2 * Vpi * k, bias=bias, Vpi=Vpi, loss_dB=loss, ER_dB=ER, pol=pol)           # theta = k*pi
        off = D.MZM(x, -bias + Vpi + 2 * Vpi * k, bias=bias, Vpi=Vpi, loss_dB=loss, ER_dB=ER, pol=pol)    # theta = pi/2 + k*pi
    p_on = np.mean(np.abs(on.signal if row is None else on.signal[row]) ** 2)
    p_off = np.mean(np.abs(off.signal if row is None else off.signal[row]) ** 2)
    ctx.check("mzm.relations", abs(10 * np.log10(p_on / p_off) - ER) <= 1e-6, f"MZM on/off power ratio {10 * np.log10(p_on / p_off):.6f} dB != ER_dB {ER:.6f}")
    ctx.check("mzm.relations", abs(10 * np.log10(p_on / P) + loss) <= 1e-6, f"MZM maximum transmission {10 * np.log10(p_on / P):.6f} dB != -loss_dB {-loss:.6f}")
    if n_pol == 2:
        ctx.check("mzm.pol", np.all(on.signal[1 - row] == 0) and np.all(off.signal[1 - row] == 0), "unselected polarisation is not extinguished")
    ctx.case(("er", n_pol, round(ER), round(loss), pol), sample={"ER_dB": ER, "loss_dB": loss, "Vpi": Vpi, "on_off_dB": float(10 * np.log10(p_on / p_off))} if i < 3 else None)


def w_pm(ctx, rng, i):
    T.gv(sps=8, R=1e9)
    n = core.long_or(rng, i, int(rng.choice([4, 7, 32, 255, 1024])))
    n_pol = int(rng.integers(1, 3))
    noise_kind = str(rng.choice(["none", "random", "sum_zero", "sum_zero", "zeros"]))
    x = make_field(rng, n, n_pol, noise_kind, real=bool(rng.integers(5) == 0))
    Vpi = pick_vpi(rng)
    dkind, a = make_drive(rng, n, Vpi)
    _, b = make_drive(rng, n, Vpi)
    ctx.describe(n=n, n_pol=n_pol, noise=noise_kind, Vpi=Vpi, drive=dkind)
    d0 = core.digest(x.signal, x.noise, a)
    with core.quiet():
        ya = D.PM(x, a.copy(), Vpi)                         # pm.post decides
        ye = D.PM(x, T.electrical_signal(a), Vpi)
        ctx.check("pm.forms", np.array_equal(ye.signal, ya.signal) and ((ye.noise is None) == (ya.noise is None)) and (ya.noise is None or np.array_equal(ye.noise, ya.noise)),
                  "PM result differs between ndarray and electrical_signal drives of equal content")
        if dkind == "const":
            ysc = D.PM(x, float(a[0]), Vpi)
            ctx.check("pm.forms", close(ysc.signal, ya.signal), "PM result differs between a scalar drive and a constant array")
        D.PM(x, int(rng.integers(-5, 6)), Vpi)
        yab = D.PM(ya, b, Vpi)
        y2 = D.PM(x, a.astype(float) + b.astype(float), Vpi)
        ctol = 4 * phase_tol(np.pi * a.astype(float) / Vpi, np.pi * b.astype(float) / Vpi)
        ctx.check("pm.compose", close(yab.signal, y2.signal, ctol) and ((yab.noise is None) == (y2.noise is None)) and (y2.noise is None or close(yab.noise, y2.noise, ctol)), "PM(PM(x,a),b) != PM(x,a+b)")
        ctx.check("pm.input_unchanged", core.digest(x.signal, x.noise, a) == d0, "PM modified its inputs")
        ctx.raises("pm.errors", ValueError, D.PM, x, np.zeros(n + int(rng.integers(1, 4))), Vpi)
        ctx.raises("pm.errors", ValueError, D.PM, x, T.electrical_signal(np.zeros(n + 1)), Vpi)
        ctx.probe("pm.electrical_input", D.PM, T.electrical_signal(np.ones(n)), a, Vpi)
        ctx.probe("pm.string_drive", D.PM, x, "1.0", Vpi)
    ctx.case(("pm", n_pol, noise_kind, dkind, n, round(Vpi)), nontrivial=True, sample={"n": n, "n_pol": n_pol, "noise": noise_kind, "Vpi": Vpi, "drive": dkind} if i < 4 else None)
    ctx.bin("pm.noise", noise_kind)


def w_laser(ctx, rng, i):
    sps = int(rng.choice([4, 8, 16, 32]))
    R = float(rng.choice([1e9, 2.5e9, 1e10]))
    N = int(rng.choice([16, 64, 200]))
    with core.quiet():
        T.gv(sps=sps, R=R, N=N)
    n = N * sps
    t = np.arange(n) * T.gv.dt
    p = float(rng.uniform(-30, 30))
    lw = [None, float(10 ** rng.uniform(3, 8))][int(rng.integers(2))]
    if i % 5 == 4:      # normalised simulation (fs = 1): the time axis is the sample index, an INTEGER array
        with core.quiet():
            T.gv(sps=sps, R=1 / sps, N=N)
        t = np.arange(n, dtype=[np.int64, np.int32, np.uint16, np.intp][int(rng.integers(4))])
        lw = None if lw is None else float(10 ** rng.uniform(-6, -2))
        ctx.bin("laser.t_dtype", str(t.dtype))
    mode = i % 3
    df = None
    if mode == 1:
        df = float(rng.uniform(-0.5, 0.5) * T.gv.fs)
    elif mode == 2:   # exactly on a bin, incl. the Nyquist edge
        kbin = int(rng.integers(-n // 2, n // 2 + 1))
        df = kbin * T.gv.fs / n
    ctx.describe(sps=sps, R=R, n=n, p_dBm=p, lw=lw, df=df)
    np.random.seed(int(rng.integers(2 ** 31)))
    with core.quiet():
        E = D.LASER(t, p, lw=lw, df=df)      # laser.post decides |E|^2 = P
        if lw is None:
            X = np.abs(np.fft.fft(E.signal))
            want = int(np.round((df or 0.0) * n / T.gv.fs)) % n
            pk = int(np.argmax(X))
            exact = abs((df or 0.0) * n / T.gv.fs - np.round((df or 0.0) * n / T.gv.fs)) < 0.45
            ctx.check("laser.peak", pk == want or (abs((df or 0) * 2) >= T.gv.fs * (1 - 1e-9) and pk in (n // 2, n - n // 2)) or not exact, f"LASER spectral peak at bin {pk}, df={df} corresponds to bin {want}")
        ctx.probe("laser.offset_beyond_nyquist", D.LASER, t, p, None, None, float(T.gv.fs * rng.uniform(0.5001, 3)) * (1 if rng.integers(2) else -1))
    ctx.case(("laser", sps, n, lw is None, mode, round(p / 10)), sample={"n": n, "fs": T.gv.fs, "p_dBm": p, "lw": lw, "df": df} if i < 4 else None)
    ctx.bin("laser.mode", ["no_df", "random_df", "bin_df"][mode])


def w_laser_pm_power(ctx, rng, i):
    """laser with phase noise and offset followed by PM: instantaneous power stays P."""
    with core.quiet():
        T.gv(sps=8, R=1e10, N=32)
    t = np.arange(256) * T.gv.dt
    p = float(rng.uniform(-20, 10))
    np.random.seed(int(rng.integers(2 ** 31)))
    with core.quiet():
        E = D.LASER(t, p, lw=float(10 ** rng.uniform(4, 8)), df=float(rng.uniform(-0.4, 0.4) * T.gv.fs))
        y = D.PM(E, rng.normal(0, 3, 256), float(rng.uniform(1, 6)))
    ctx.check("pm.power", np.allclose(np.abs(y.signal) ** 2, 10 ** (p / 10 - 3), rtol=1e-9), "LASER -> PM changed the instantaneous power")
    ctx.case(("lpm", round(p)))


def FORM_TWINS():
    import opticomlib.devices as dv
    return [(dv, ["MZM", "PM", "LASER"])]


WORKLOADS = [
    Workload("mzm", w_mzm, 3000, 120000, budget=400),
    Workload("mzm_er", w_mzm_er, 400, 40000),
    Workload("pm", w_pm, 2500, 100000, budget=400),
    Workload("laser", w_laser, 600, 30000),
    Workload("laser_pm_power", w_laser_pm_power, 60, 3000),
    Workload("repo_tests", lambda ctx, rng, i: core.run_repo_tests(ctx), 1, 1, budget=1800, tiers=("thorough",)),
]


def classify(v):
    return None
