"""C08 — nonlinear FIBER conserves energy up to loss and converges to the NLSE solution."""
import math

import numpy as np

from .. import core, ref, spies
from ..run import Workload

RULE = ("Gaussian / NRZ pulse trains and band-limited random fields of 128..1024 samples, peak power 1e-9..0.5 W, including zero-padded leading "
        "samples and an all-zero polarisation, L <= 100 km, alpha in [0,0.5] dB/km, beta2 in +-25 ps^2/km, beta3 in +-0.2, gamma in [0,5] /W/km with "
        "gamma*P_peak*L <= 10 rad, phi_max in [5e-4,0.1], 1 and 2 polarisations, several gv.fs. Boundary postcondition on every call, "
        "sys.monitoring probe of the live split-step loop (step sizes, nonlinear phase per step, sum of steps), SPM closed form, convergence "
        "towards an independent fixed-step NLSE reference (step-halving + Richardson, validated on the analytic soliton). Non-trivial: "
        "gamma > 0 and non-zero field; distinct by (workload, n_pol, input kind, parameter bins).")
ASSUMPTIONS = ["'the NLSE' is the equation whose linear part is the all-pass filter of C07 and whose nonlinear part is the SPM closed form of this "
               "property (numpy's transform convention): dA/dz = -a/2 A + j b2/2 A_tt - b3/6 A_ttt + j g |A|^2 A, per polarisation",
               "dB->neper: the library uses 4.343; absolute loss asserted to 2e-5 of the exponent, phi_max-independence of the energy to 1e-10",
               "convergence constant: err(phi_max) <= 6*phi_max*max(1, gamma*P_peak*L_eff) + 1e-6 (calibrated, >= 3x margin) and the error must shrink at least 3x when phi_max goes from 0.1 to 0.00625 (for nonlinear phases above 1 rad)"]
TOLERANCES = {"energy_exponent_rel": 2e-5, "energy_phi_independence": 1e-10, "spm_rtol": 1e-9, "one_vs_two_pol": 1e-12, "step_phase_slack": 1e-9}
MIN_CHECKS = {"fiber.finite_shape": 200, "fiber.energy": 200, "spm.closed_form": 60, "nlse.converges": 12, "onepol.equals_x": 60}      # (the frame-local probe of the split-step loop is an optional white-box cross-check: a refactoring that moves the loop body makes it blind, which must not make the check inconclusive)
SHARDS = {"quick": 4}

D = T = None
_probe_stats = {}


def relL2(a, b):
    return float(np.linalg.norm(np.asarray(a) - np.asarray(b))) / max(float(np.linalg.norm(b)), 1e-300)


def setup(ctx):
    global D, T
    import opticomlib.devices as dv
    import opticomlib.typing as ty
    D, T = dv, ty

    def fiber_post(orig):
        def wrapper(input, length, alpha=0.0, beta_2=0.0, beta_3=0.0, gamma=0.0, phi_max=0.05, show_progress=False):
            if core.in_monitor():
                return orig(input, length, alpha, beta_2, beta_3, gamma, phi_max, show_progress)
            with spies.fiber_probe(orig) as probe:
                r = orig(input, length, alpha, beta_2, beta_3, gamma, phi_max, show_progress)
            with core.monitor_scope():
                ctx.call("fiber.finite_shape")
                ok = isinstance(r, T.optical_signal) and r.signal.shape == input.signal.shape and r.n_pol == input.n_pol and bool(np.all(np.isfinite(r.signal)))
                ctx.check("fiber.finite_shape", ok, f"FIBER did not return a finite field of the input's shape (shape {getattr(getattr(r, 'signal', None), 'shape', None)}, finite={bool(np.all(np.isfinite(r.signal))) if hasattr(r, 'signal') else None})",
                          n_pol=input.n_pol, gamma=gamma, beta_2=beta_2, beta_3=beta_3, alpha=alpha, length=length, phi_max=phi_max, peak_power=float(np.max(np.abs(input.signal) ** 2)),
                          first_samples=np.ravel(input.signal)[:2])
                if ok:
                    e_in = np.sum(np.abs(input.signal) ** 2, axis=-1)
                    e_out = np.sum(np.abs(r.signal) ** 2, axis=-1)
                    ex = alpha * length * math.log(10) / 10
                    nz = np.atleast_1d(e_in) > 0
                    good = np.all(np.abs(np.log(np.atleast_1d(e_out)[nz] / np.atleast_1d(e_in)[nz]) + ex) <= 2e-5 * ex + 1e-9) and np.all(np.atleast_1d(e_out)[~nz] == 0)
                    ctx.check("fiber.energy", good, f"energy per polarisation != input energy * 10^(-alpha*L/10): ln ratio {np.log(np.atleast_1d(e_out)[nz] / np.atleast_1d(e_in)[nz])} vs {-ex}",
                              n_pol=input.n_pol, gamma=gamma, phi_max=phi_max)
                recs = probe.records
                _probe_stats["last"] = recs
                if recs and gamma != 0:
                    hs = np.array([rec.get("h", np.nan) for rec in recs], float)
                    pk = np.array([rec.get("peak_total_power", np.nan) for rec in recs], float)
                    ctx.check("probe.steps_valid", np.all(np.isfinite(hs)) and np.all(hs > 0), f"split-step loop used a non-positive / non-finite step: {hs[~(np.isfinite(hs) & (hs > 0))][:4]} (n_pol={input.n_pol})", n_pol=input.n_pol)
                    ctx.check("probe.sum_steps", abs(float(np.sum(hs)) - length) <= 1e-9 * length, f"steps sum to {float(np.sum(hs))!r}, fibre length {length!r} ({len(hs)} steps)")
                    if (beta_2 != 0 or beta_3 != 0):
                        phase = gamma * hs * pk
                        ctx.check("probe.step_phase", np.all(phase <= phi_max * (1 + 1e-9) + 1e-300), f"nonlinear phase per step {float(np.nanmax(phase)):.4g} rad exceeds phi_max={phi_max} (step {int(np.nanargmax(phase))} of {len(hs)}, n_pol={input.n_pol})",
                                  n_pol=input.n_pol)
                elif gamma != 0 and (beta_2 != 0 or beta_3 != 0):
                    ctx.not_observed("probe.step_phase")
            return r
        return wrapper

    core.attach(dv, "FIBER", fiber_post)


def on_watchdog(ctx, w):
    """a split-step loop spinning on a non-finite step can never return: that contradicts 'returns a finite field'."""
    for fr in w.frame_info:
        if fr["func"] == "FIBER":
            loc = fr["locals"]
            bad = [k for k in ("h", "x_length") if k in loc and any(t in loc[k] for t in ("nan", "inf"))]
            if bad:
                ctx.check("fiber.returns", False, f"FIBER never returns: split-step loop spinning with {', '.join(f'{k}={loc[k]}' for k in bad)}", locals=loc)
                return True
    return False


# ---- inputs ------------------------------------------------------------------------------
def set_fs(rng):
    fs = float(rng.choice([4e10, 8e10, 1.6e11, 3.2e11, 6.4e11]))
    with core.quiet():
        if rng.integers(5) == 0:      # a sampling rate that is not an integer multiple of the slot rate: everything follows gv.fs, not sps*R
            T.gv(R=fs / float(rng.choice([2.5, 3.3, 7.6])), fs=fs)
        else:
            T.gv(sps=int(rng.choice([8, 16])), fs=fs)
    return float(T.gv.fs)


def make_field(rng, n, n_pol, peak, kind, fs):
    t = np.arange(n)

    def row():
        if kind == "gauss_train":
            s = np.zeros(n, complex)
            for c in rng.uniform(0.15 * n, 0.85 * n, int(rng.integers(1, 4))):
                s = s + rng.uniform(0.4, 1) * np.exp(-((t - c) / rng.uniform(n / 60, n / 12)) ** 2) * np.exp(1j * rng.uniform(0, 6))
        elif kind == "nrz":
            sps = max(4, n // 16)
            b = rng.integers(0, 2, n // sps + 1)
            b[0] = 0
            s = np.repeat(b, sps)[:n].astype(complex)
            k = np.exp(-0.5 * (np.arange(-3 * sps, 3 * sps + 1) / (sps / 4)) ** 2)
            s = np.convolve(s, k / k.sum(), "same")
        elif kind == "random_bl":
            S = (rng.normal(0, 1, n) + 1j * rng.normal(0, 1, n)) * (np.abs(np.fft.fftfreq(n)) < rng.uniform(0.03, 0.15))
            s = np.fft.ifft(S)
        elif kind == "phase_coded":        # exactly flat envelope, not CW: BPSK / QPSK symbols held for a few samples
            m = max(2, n // 32)
            sym = (2.0 * rng.integers(0, 2, n // m + 1) - 1) + (1j * (2.0 * rng.integers(0, 2, n // m + 1) - 1) if rng.integers(2) else 0)
            s = np.repeat(sym, m)[:n].astype(complex)
        elif kind == "leading_zeros":
            s = np.exp(-((t - 0.6 * n) / (n / 15)) ** 2).astype(complex)
            s[: int(rng.integers(2, n // 4))] = 0
        else:
            raise KeyError(kind)
        m = np.max(np.abs(s))
        return s / m if m > 0 else s
    if n_pol == 1:
        return T.optical_signal(row() * math.sqrt(peak))
    r0, r1 = row(), row() * rng.uniform(0.1, 1)
    sc = math.sqrt(peak / max(np.max(np.abs(r0) ** 2 + np.abs(r1) ** 2), 1e-300))
    return T.optical_signal(np.stack([r0, r1]) * sc)


KINDS = ["gauss_train", "nrz", "random_bl", "leading_zeros", "phase_coded"]


def rand_params(rng, peak):
    L = float(10 ** rng.uniform(-0.5, 2))
    alpha = float(rng.uniform(0, 0.5)) if rng.integers(4) else 0.0
    b2 = float(rng.uniform(-25, 25))
    b3 = float(rng.uniform(-0.2, 0.2)) if rng.integers(2) else 0.0
    if rng.integers(6) == 0:          # the zero-dispersion point: third-order dispersion only
        b2, b3 = 0.0, float(rng.uniform(0.02, 0.2)) * float(rng.choice([1, -1]))
    gmax = min(5.0, 10.0 / (peak * L))
    gamma = float(rng.uniform(0.05, 1) * gmax)
    phi = float(10 ** rng.uniform(math.log10(5e-4), -1))
    return L, alpha, b2, b3, gamma, phi


def w_general(ctx, rng, i):
    """boundary postcondition + frame probe over the whole quantifier domain (incl. hostile inputs)."""
    fs = set_fs(rng)
    n = int(rng.choice([128, 256, 512, 127, 208, 250, 404, 509]))     # incl. odd, prime and large-prime-factor record lengths
    n_pol = int(rng.integers(1, 3))
    kind = KINDS[i % len(KINDS)]
    peak = float(10 ** rng.uniform(-9, math.log10(0.5)))
    if i % 5 == 0:
        peak = float(rng.choice([0.5, 1e-9, 1e-7, 0.1]))
    x = make_field(rng, n, n_pol, peak, kind, fs)
    if n_pol == 2 and i % 11 == 0:
        x.signal[1] = 0                                          # an all-zero polarisation
    L, alpha, b2, b3, gamma, phi = rand_params(rng, peak)
    if phi < 3e-3 and gamma * peak * L > 3:
        phi = 3e-3 * float(rng.uniform(1, 10))                   # keep the quick tier quick
    ctx.describe(fs=fs, n=n, n_pol=n_pol, kind=kind, peak=peak, L=L, alpha=alpha, beta_2=b2, beta_3=b3, gamma=gamma, phi_max=phi)
    d0 = core.digest(x.signal)
    with core.quiet():
        y = D.FIBER(x, L, alpha, b2, b3, gamma, phi)             # fiber.* and probe.* monitors decide
        # energy must not depend on phi_max
        phi2 = float(10 ** rng.uniform(math.log10(3e-3), -1))
        y2 = D.FIBER(x, L, alpha, b2, b3, gamma, phi2)
    if np.all(np.isfinite(y.signal)) and np.all(np.isfinite(y2.signal)):
        e1 = np.sum(np.abs(y.signal) ** 2, axis=-1)
        e2 = np.sum(np.abs(y2.signal) ** 2, axis=-1)
        ctx.check("fiber.energy_phi", np.allclose(e1, e2, rtol=1e-10, atol=0), f"output energy depends on phi_max: {e1} vs {e2}")
    ctx.check("input_unchanged", core.digest(x.signal) == d0, "FIBER modified its input")
    ctx.case(("gen", n_pol, kind, round(math.log10(peak)), round(math.log10(L), 1), alpha > 0, b3 != 0, round(math.log10(phi), 1)), nontrivial=gamma > 0,
             sample=dict(fs=fs, n=n, n_pol=n_pol, kind=kind, peak=peak, L=L, alpha=alpha, beta_2=b2, beta_3=b3, gamma=gamma, phi_max=phi, steps=len(_probe_stats.get("last", []))) if i < 6 else None)
    ctx.bin("kind", kind)
    ctx.bin("n_pol", n_pol)


def w_deep(ctx, rng, i):
    """the corner of the domain with the most steps: total nonlinear phase near 10 rad at phi_max near 5e-4 (> 10^4 adaptive steps).
    The live probe checks every one of them; the energy law and convergence against the reference are asserted as well."""
    fs = float(rng.choice([1.6e11, 3.2e11]))
    with core.quiet():
        T.gv(sps=8, fs=fs)
    n = 128
    n_pol = 1 + i % 2
    peak = float(rng.uniform(0.1, 0.5))
    x = make_field(rng, n, n_pol, peak, ["gauss_train", "nrz"][(i // 2) % 2], fs)      # (selectors of one workload use different digits of the index: i % 2 for both tied the pulse shape to the polarisation count)
    L = min(100.0, max(float(rng.uniform(5, 40)), 2.6 / peak))          # long enough for ~9 rad with gamma <= 5 /W/km
    alpha = float(rng.uniform(0, 0.1)) if i % 3 else 0.0
    a = alpha * math.log(10) / 10
    Leff = (1 - math.exp(-a * L)) / a if a > 0 else L
    gamma = min(5.0, float(rng.uniform(8.5, 9.9)) / (peak * Leff))
    b2 = float(rng.uniform(3, 20)) * float(rng.choice([1, -1]))
    phi = float(rng.uniform(5e-4, 7e-4))
    ctx.describe(fs=fs, n=n, n_pol=n_pol, peak=peak, L=L, alpha=alpha, beta_2=b2, gamma=gamma, phi_max=phi, nonlinear_phase=gamma * peak * Leff)
    with core.quiet():
        y = D.FIBER(x, L, alpha, b2, 0.0, gamma, phi)
    nsteps = len(_probe_stats.get("last", []))
    ctx.bin("deep.steps>1e4", nsteps > 10000)          # coverage indicator, not a verdict
    refsol, achieved, steps = ref.nlse_reference(x.signal, fs, L, alpha, b2, 0.0, gamma, tol=1e-7, nmax=2 ** 15)
    if achieved <= 3e-6 and np.all(np.isfinite(y.signal)):
        g_ = math.sqrt(np.sum(np.abs(refsol) ** 2) / max(np.sum(np.abs(y.signal) ** 2), 1e-300))
        err = relL2(y.signal * g_, refsol)
        ctx.check("nlse.converges", err <= 6 * phi * max(1.0, gamma * peak * Leff) + 1e-6, f"relative error {err:.3g} vs the NLSE reference at phi_max={phi:.3g} ({nsteps} steps, nonlinear phase {gamma * peak * Leff:.2f} rad)")
    ctx.case(("deep", n_pol, round(gamma * peak * Leff), alpha > 0, b2 > 0), sample=dict(fs=fs, n_pol=n_pol, peak=peak, L=L, alpha=alpha, beta_2=b2, gamma=gamma, phi_max=phi, steps=nsteps) if i < 2 else None)


def w_zero_input(ctx, rng, i):
    fs = set_fs(rng)
    n = int(rng.choice([64, 128]))
    n_pol = 1 + i % 2
    x = T.optical_signal(np.zeros((2, n) if n_pol == 2 else n, complex))
    L, alpha, b2, b3, gamma, phi = rand_params(rng, 0.1)
    ctx.describe(n=n, n_pol=n_pol, L=L, alpha=alpha, beta_2=b2, gamma=gamma, all_zero=True)
    with core.quiet():
        y = D.FIBER(x, L, alpha, b2, b3, gamma, phi)
    ctx.check("fiber.zero", np.all(y.signal == 0), "an all-zero input does not give an all-zero output")
    ctx.case(("zero", n_pol, n))


def w_layouts(ctx, rng, i):
    """every container layout FIBER can be handed: record lengths 1, 2, 3, small primes, one/two polarisations, with and without
    a noise component (which FIBER carries along), complex / real / integer sample dtypes, every branch of the propagator
    (closed-form SPM, purely linear, split-step). fiber.finite_shape / fiber.energy decide; a one-polarisation twin of the
    x row is compared as well."""
    fs = set_fs(rng)
    n = int([1, 2, 3, 5, 7, 13, 16, 31, 1, 2][i % 10])
    n_pol = 1 + (i // 10) % 2
    noise = ["none", "complex", "real"][(i // 20) % 3]
    dt = ["complex", "float", "int"][(i // 60) % 3]
    branch = ["split", "split_b3", "spm", "linear"][int(rng.integers(4))]
    shape = (2, n) if n_pol == 2 else (n,)
    if dt == "int":
        s = rng.integers(-3, 4, shape)
        s[..., 0] = np.where(s[..., 0] == 0, 1, s[..., 0])          # amplitudes of a few sqrt(W): gamma is scaled to the peak power below
    else:
        s = rng.normal(0, 0.3, shape) + (1j * rng.normal(0, 0.3, shape) if dt == "complex" else 0)
    nz = None if noise == "none" else (rng.normal(0, 0.01, shape) + (1j * rng.normal(0, 0.01, shape) if noise == "complex" else 0))
    x = T.optical_signal(s, nz)
    peak = float(np.max(np.sum(np.abs(np.atleast_2d(x.signal)) ** 2, axis=0)))
    L = float(10 ** rng.uniform(-0.5, 1.5))
    alpha = float(rng.uniform(0, 0.5)) if rng.integers(3) else 0.0
    b2 = 0.0 if branch in ("spm", "split_b3") else float(rng.uniform(-25, 25))
    b3 = float(rng.uniform(0.02, 0.2)) if branch == "split_b3" else 0.0
    gamma = 0.0 if branch == "linear" else float(rng.uniform(0.1, 1) * min(5.0, 10.0 / (max(peak, 1e-12) * L)))
    phi = float(10 ** rng.uniform(-2.3, -1))
    ctx.describe(n=n, n_pol=n_pol, noise=noise, dtype=dt, branch=branch, L=L, alpha=alpha, beta_2=b2, beta_3=b3, gamma=gamma, phi_max=phi)
    d0 = core.digest(x.signal, x.noise)
    with core.quiet():
        y = D.FIBER(x, L, alpha, b2, b3, gamma, phi)                       # fiber.finite_shape / fiber.energy decide
        ctx.check("layout.class", isinstance(y, T.optical_signal) and y.n_pol == n_pol and y.len() == n, f"FIBER returned n_pol={getattr(y, 'n_pol', None)}, len={y.len() if hasattr(y, 'len') else None} for a {shape} input")
        if n_pol == 2 and np.all(np.isfinite(y.signal)) and y.signal.shape == shape:
            x1 = T.optical_signal(np.stack([x.signal[0], np.zeros(n)]))
            y2 = D.FIBER(x1, L, alpha, b2, b3, gamma, phi)
            y1 = D.FIBER(T.optical_signal(x.signal[0].copy()), L, alpha, b2, b3, gamma, phi)
            ctx.check("onepol.equals_x", y1.signal.shape == (n,) and y2.signal.shape == (2, n) and relL2(y1.signal, y2.signal[0]) <= 1e-12 and np.all(y2.signal[1] == 0),
                      f"a one-polarisation signal of {n} samples does not propagate like the x-polarisation of a two-polarisation signal with empty y")
    ctx.check("input_unchanged", core.digest(x.signal, x.noise) == d0, "FIBER modified its input")
    ctx.case(("layout", n, n_pol, noise, dt, branch), sample=dict(n=n, n_pol=n_pol, noise=noise, dtype=dt, branch=branch) if i < 3 else None)
    ctx.bin("layout.n", n)
    ctx.bin("layout.noise", noise)


def w_zero_coefficients(ctx, rng, i):
    """every subset of {alpha, beta_2, beta_3, gamma} set to exactly zero (16 combinations, down to the fully transparent fibre),
    one and two polarisations: shape / energy postconditions, the SPM closed form where there is no dispersion, and the result is
    a new object that shares nothing with the input."""
    fs = set_fs(rng)
    mask = i % 16
    n_pol = 1 + (i // 16) % 2
    n = int(rng.choice([64, 127, 256]))
    peak = float(10 ** rng.uniform(-3, math.log10(0.5)))
    x = make_field(rng, n, n_pol, peak, KINDS[int(rng.integers(len(KINDS)))], fs)
    L = float(10 ** rng.uniform(-0.5, 1.5))
    alpha = 0.0 if mask & 1 else float(rng.uniform(0.05, 0.5))
    b2 = 0.0 if mask & 2 else float(rng.uniform(-25, 25))
    b3 = 0.0 if mask & 4 else float(rng.uniform(-0.2, 0.2))
    gamma = 0.0 if mask & 8 else float(rng.uniform(0.1, 1) * min(5.0, 10.0 / (peak * L)))
    zero_as_int = bool(rng.integers(2))
    args = [0 if (zero_as_int and v == 0) else v for v in (alpha, b2, b3, gamma)]
    ctx.describe(n=n, n_pol=n_pol, L=L, alpha=args[0], beta_2=args[1], beta_3=args[2], gamma=args[3], zero_mask=mask)
    d0 = core.digest(x.signal)
    with core.quiet():
        y = D.FIBER(x, L, args[0], args[1], args[2], args[3], 0.02)         # fiber.* decide
    ctx.check("fresh.result", y is not x and isinstance(y, T.optical_signal) and not np.shares_memory(y.signal, x.signal), "FIBER returned its input object / a view of its input")
    if b2 == 0 and b3 == 0 and isinstance(y, T.optical_signal) and y.signal.shape == x.signal.shape:
        a = alpha * math.log(10) / 10
        ok = False
        for aa in (a, alpha / 4.343):
            Leff = (1 - math.exp(-aa * L)) / aa if aa > 0 else L
            ok = ok or relL2(y.signal, x.signal * math.exp(-aa * L / 2) * np.exp(1j * gamma * np.abs(x.signal) ** 2 * Leff)) <= 1e-9
        ctx.check("spm.closed_form", ok, f"dispersionless FIBER != in*exp(-aL/2)*exp(j g |in|^2 L_eff) (alpha={alpha}, gamma={gamma})")
    ctx.check("input_unchanged", core.digest(x.signal) == d0, "FIBER modified its input")
    ctx.case(("zeros", mask, n_pol, zero_as_int), sample=dict(zero_mask=mask, n_pol=n_pol) if i < 2 else None)
    ctx.bin("zero_mask", mask)


def w_spm(ctx, rng, i):
    """no dispersion: out = in * exp(-a L/2) * exp(j g |in|^2 L_eff)."""
    fs = set_fs(rng)
    n = int(rng.choice([64, 128, 500]))
    n_pol = int(rng.integers(1, 3))
    peak = float(10 ** rng.uniform(-6, math.log10(0.5)))
    x = make_field(rng, n, n_pol, peak, KINDS[int(rng.integers(len(KINDS)))], fs)
    L = float(10 ** rng.uniform(-0.5, 2))
    alpha = float(rng.uniform(0.01, 0.5)) if i % 3 else 0.0
    gamma = float(rng.uniform(0.05, 1) * min(5.0, 10.0 / (peak * L)))
    phi = float(10 ** rng.uniform(math.log10(5e-4), -1))
    a = alpha * math.log(10) / 10
    a_lib = alpha / 4.343
    ctx.describe(n=n, n_pol=n_pol, peak=peak, L=L, alpha=alpha, gamma=gamma, phi_max=phi)
    with core.quiet():
        y = D.FIBER(x, L, alpha, 0.0, 0.0, gamma, phi)
    if np.all(np.isfinite(y.signal)) and y.signal.shape == x.signal.shape:
        # accept either dB->neper constant for the (tiny) difference in L_eff; the amplitude factor is checked by fiber.energy
        ok = False
        for aa in (a, a_lib):
            Leff = (1 - math.exp(-aa * L)) / aa if aa > 0 else L
            want = x.signal * math.exp(-aa * L / 2) * np.exp(1j * gamma * np.abs(x.signal) ** 2 * Leff)
            ok = ok or relL2(y.signal, want) <= 1e-9
        Leff = (1 - math.exp(-a * L)) / a if a > 0 else L
        want = x.signal * math.exp(-a * L / 2) * np.exp(1j * gamma * np.abs(x.signal) ** 2 * Leff)
        ctx.check("spm.closed_form", ok, f"dispersionless FIBER != in*exp(-aL/2)*exp(j g |in|^2 L_eff): rel L2 error {relL2(y.signal, want):.3g} (alpha={alpha:.3g} dB/km, g*P*L_eff={gamma * peak * Leff:.3g} rad)",
                  lossy=alpha > 0, n_pol=n_pol)
    ctx.case(("spm", n_pol, alpha > 0, round(math.log10(peak)), round(math.log10(L), 1)), sample=dict(n=n, n_pol=n_pol, peak=peak, L=L, alpha=alpha, gamma=gamma) if i < 3 else None)
    ctx.bin("spm.lossy", alpha > 0)


def w_onepol(ctx, rng, i):
    fs = set_fs(rng)
    n = int(rng.choice([128, 256, 127, 208]))
    peak = float(10 ** rng.uniform(-4, math.log10(0.5)))
    kind = KINDS[i % 4]
    x1 = make_field(rng, n, 1, peak, kind, fs)
    x2 = T.optical_signal(np.stack([x1.signal, np.zeros(n)]))
    L, alpha, b2, b3, gamma, phi = rand_params(rng, peak)
    phi = max(phi, 3e-3)
    ctx.describe(n=n, kind=kind, peak=peak, L=L, alpha=alpha, beta_2=b2, beta_3=b3, gamma=gamma, phi_max=phi)
    with core.quiet():
        y1 = D.FIBER(x1, L, alpha, b2, b3, gamma, phi)
        y2 = D.FIBER(x2, L, alpha, b2, b3, gamma, phi)
    if np.all(np.isfinite(y1.signal)) and np.all(np.isfinite(y2.signal)):
        ctx.check("onepol.equals_x", y1.signal.shape == (n,) and y2.signal.shape == (2, n) and relL2(y1.signal, y2.signal[0]) <= 1e-12 and np.all(y2.signal[1] == 0),
                  f"a one-polarisation signal does not propagate like the x-polarisation of a two-polarisation signal with empty y (rel L2 {relL2(y1.signal, y2.signal[0]):.3g})", kind=kind)
    ctx.case(("onepol", kind, round(math.log10(peak)), round(math.log10(L), 1)), sample=dict(n=n, kind=kind, peak=peak, L=L, gamma=gamma, beta_2=b2) if i < 3 else None)


def w_converge(ctx, rng, i):
    """relative error against the NLSE reference for phi_max in {0.1, 0.025, 0.00625}."""
    fs = float(rng.choice([8e10, 1.6e11, 3.2e11]))
    with core.quiet():
        T.gv(sps=8, fs=fs)
    n = int(rng.choice([128, 256, 208, 127]))
    n_pol = 1 + (i % 2)
    kind = ["gauss_train", "nrz", "random_bl", "leading_zeros"][(i // 2) % 4]
    peak = float(10 ** rng.uniform(-2.5, math.log10(0.5)))
    x = make_field(rng, n, n_pol, peak, kind, fs)
    L = float(10 ** rng.uniform(0, 1.9))
    alpha = float(rng.uniform(0, 0.5)) if i % 3 else 0.0
    b2 = float(rng.uniform(2, 25)) * float(rng.choice([1, -1]))
    b3 = float(rng.uniform(-0.2, 0.2)) if rng.integers(2) else 0.0
    if i % 7 == 5:                    # zero-dispersion point: beta2 = 0 exactly, beta3 only
        b2, b3 = 0.0, float(rng.uniform(0.05, 0.2)) * float(rng.choice([1, -1]))
    target = float(rng.uniform(0.3, 4.0)) if ctx.tier == "quick" else float(rng.uniform(0.3, 10.0))
    gamma = min(5.0, target / (peak * L))
    a = alpha * math.log(10) / 10
    Leff = (1 - math.exp(-a * L)) / a if a > 0 else L
    nlphase = gamma * peak * Leff
    ctx.describe(fs=fs, n=n, n_pol=n_pol, kind=kind, peak=peak, L=L, alpha=alpha, beta_2=b2, beta_3=b3, gamma=gamma, nonlinear_phase=nlphase)
    refsol, achieved, steps = ref.nlse_reference(x.signal, fs, L, alpha, b2, b3, gamma, tol=1e-7, nmax=2 ** 15)
    if achieved > 3e-6:
        raise core.Skip()            # reference not converged within the step budget: no verdict from this case
    errs = []
    with core.quiet():
        for phi in (0.1, 0.025, 0.00625):
            y = D.FIBER(x, L, alpha, b2, b3, gamma, phi)
            if not np.all(np.isfinite(y.signal)) or y.signal.shape != x.signal.shape:
                return
            # remove the 1.3e-5 relative difference of the library's dB->neper constant: compare shapes at equal energy
            g_ = math.sqrt(np.sum(np.abs(refsol) ** 2) / max(np.sum(np.abs(y.signal) ** 2), 1e-300))
            errs.append(relL2(y.signal * g_, refsol))
    scale = max(1.0, nlphase)
    ok_bound = all(e <= 6 * phi * scale + 1e-6 for e, phi in zip(errs, (0.1, 0.025, 0.00625)))
    ctx.check("nlse.converges", ok_bound, f"relative error vs the NLSE reference {['%.3g' % e for e in errs]} for phi_max (0.1, 0.025, 0.00625) exceeds 6*phi_max*max(1, nonlinear phase={nlphase:.3g})", n_pol=n_pol, kind=kind)
    floor = 3e-6
    # below 1 rad the fibre length, not phi_max, limits the step; above it a 16x smaller phi_max must buy at least a 3x smaller error
    ok_rate = nlphase < 1.0 or (errs[2] <= max(errs[0] / 3, floor) and errs[1] <= max(errs[0] * 1.05, floor) and errs[2] <= max(errs[1] * 1.05, floor))
    ctx.check("nlse.rate", ok_rate, f"error does not shrink with phi_max: {['%.3g' % e for e in errs]} (nonlinear phase {nlphase:.3g} rad)", n_pol=n_pol, kind=kind)
    ctx.case(("conv", n_pol, kind, round(nlphase), b2 > 0, alpha > 0), sample=dict(fs=fs, n=n, n_pol=n_pol, kind=kind, peak=peak, L=L, alpha=alpha, beta_2=b2, beta_3=b3, gamma=gamma, errors=errs, reference_steps=steps, reference_selfconsistency=achieved) if i < 6 else None)
    ctx.bin("conv.err_over_phi", round(float(max(e / p for e, p in zip(errs, (0.1, 0.025, 0.00625))) / scale), 1))


def w_two_grids(ctx, rng, i):
    """the same samples and fibre parameters on two sampling rates (and back) within one process: each run must converge to the
    NLSE solution of ITS grid."""
    n = 128
    n_pol = 1 + i % 2
    fa, fb = (float(v) for v in rng.choice([4e10, 8e10, 1.6e11, 3.2e11, 6.4e11], 2, replace=False))
    peak = float(rng.uniform(0.05, 0.5))
    x = make_field(rng, n, n_pol, peak, ["gauss_train", "random_bl"][(i // 2) % 2], fa)
    L = float(rng.uniform(2, 30))
    alpha = float(rng.uniform(0, 0.4))
    b2 = float(rng.uniform(3, 25)) * float(rng.choice([1, -1]))
    b3 = float(rng.uniform(-0.2, 0.2))
    gamma = min(5.0, float(rng.uniform(1, 3)) / (peak * L))
    phi = 0.01
    a = alpha * math.log(10) / 10
    Leff = (1 - math.exp(-a * L)) / a if a > 0 else L
    nl = gamma * peak * Leff
    ctx.describe(n=n, n_pol=n_pol, fs_sequence=[fa, fb, fa], peak=peak, L=L, alpha=alpha, beta_2=b2, beta_3=b3, gamma=gamma, phi_max=phi)
    outs = []
    for fs in (fa, fb, fa):
        with core.quiet():
            T.gv(sps=8, fs=fs)
            y = D.FIBER(x, L, alpha, b2, b3, gamma, phi)
        outs.append(y.signal)
        refsol, achieved, _ = ref.nlse_reference(x.signal, fs, L, alpha, b2, b3, gamma, tol=1e-7, nmax=2 ** 15)
        if achieved <= 3e-6 and np.all(np.isfinite(y.signal)):
            g_ = math.sqrt(np.sum(np.abs(refsol) ** 2) / max(np.sum(np.abs(y.signal) ** 2), 1e-300))
            err = relL2(y.signal * g_, refsol)
            ctx.check("nlse.converges", err <= 6 * phi * max(1.0, nl) + 1e-6, f"relative error {err:.3g} vs the NLSE reference at fs={fs:.3g} after the sampling-rate sequence {[fa, fb, fa]} (phi_max={phi})")
    ctx.check("grid.history", np.array_equal(outs[0], outs[2]), f"FIBER result at fs={fa:.3g} differs after a visit to fs={fb:.3g}")
    ctx.case(("grids", n_pol, fa, fb), sample=dict(fs_sequence=[fa, fb, fa], L=L, gamma=gamma, beta_2=b2) if i < 2 else None)


def FORM_TWINS():
    import opticomlib.devices as dv
    return [(dv, ["FIBER"])]


WORKLOADS = [
    Workload("general", w_general, 1500, 16000, budget=90),
    Workload("zero_input", w_zero_input, 8, 80, budget=30),
    Workload("spm", w_spm, 600, 6000, budget=60),
    Workload("onepol", w_onepol, 300, 4000, budget=90),
    Workload("converge", w_converge, 80, 1200, budget=300),
    Workload("deep", w_deep, 8, 160, budget=300),
    Workload("two_grids", w_two_grids, 24, 600, budget=300),
    Workload("layouts", w_layouts, 360, 7200, budget=120),
    Workload("zero_coefficients", w_zero_coefficients, 64, 1600, budget=120),
]


def classify(v):
    return None
