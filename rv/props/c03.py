"""C03 — a noise-free link built from the library's blocks returns the transmitted bits."""
import numpy as np

from .. import core
from ..run import Workload

RULE = ("bit patterns {random, PRBS7/9/11 segments, runs of 1..32 equal bits, alternating, a single 1, a single 0} with len*sps > 16, sps 4..64 incl. odd "
        "values, R in {1e8..4e10}, NRZ and Gaussian (T = sps) shaping, Vpi in [1,10], loss in [0,10] dB, ER in [10,40] dB, launch power 1e-5..1e-1 W, "
        "r in (0,1], R_load in {10..1e4}, PD bandwidth in [0.7,2]*R, one or two polarisations (either MZM pol), optional FIBER(gamma=0) or DM with "
        "|beta2*L| < 1% of the squared slot period; ook.DSP on >= 32 random/PRBS slots, ppm.DSP soft/hard for M in {2,4,8,16}; counter mode of both "
        "BER_analizer functions with k injected flips. Non-trivial: both symbols present; distinct by (pattern class, sps, shape, n_pol, element list, parameter bins).")
ASSUMPTIONS = ["noise switched off: CW carrier without linewidth/RIN, PD include_noise='ase-only' with i_dark = 0 and no optical noise component",
               "manual decision: SAMPLER at k = sps//2 and numpy comparison of signal+noise with (max+min)/2 of the sampled values",
               "Gaussian shaping: the DAC defaults (T = sps, m = 1) or, in half of the Gaussian cases, a super-Gaussian order m in 1..4 and an explicit width T in [ceil(sps/2), sps] (pulses that stay inside their slot)",
               "two-polarisation carriers: the same field in both axes, or polarised along the modulated axis only, or with unequal power in the two axes"]
MIN_CHECKS = {"link.bits": 200, "ook.dsp": 20, "ppm.dsp": 30, "ber.counter": 60}
SHARDS = {"quick": 4}

D = T = O = P = None


def setup(ctx):
    global D, T, O, P
    import opticomlib.devices as dv
    import opticomlib.typing as ty
    import opticomlib.ook as ook
    import opticomlib.ppm as ppm
    D, T, O, P = dv, ty, ook, ppm


def pattern(rng, kind, n):
    if kind == "random":
        b = rng.integers(0, 2, n)
    elif kind == "prbs":
        order = int(rng.choice([7, 9, 11]))
        with core.quiet():
            b = D.PRBS(order, len=n, seed=int(rng.integers(1, 2 ** order))).data.astype(int)
    elif kind == "runs":
        b = []
        v = int(rng.integers(2))
        while len(b) < n:
            b += [v] * int(rng.integers(1, 33))
            v = 1 - v
        b = np.array(b[:n])
    elif kind == "alternating":
        b = (np.arange(n) + int(rng.integers(2))) % 2
    elif kind == "single1":
        b = np.zeros(n, int)
        b[int(rng.integers(0, n))] = 1
    else:
        b = np.ones(n, int)
        b[int(rng.integers(0, n))] = 0
    b = np.asarray(b, int)
    if b.min() == b.max():
        b[int(rng.integers(n))] ^= 1
    return b


KINDS = ["random", "prbs", "runs", "alternating", "single1", "single0"]
SPS = [4, 5, 6, 7, 8, 9, 11, 12, 15, 16, 17, 24, 31, 32, 33, 48, 63, 64]


def build_link(rng, bits, sps, R, shape, n_pol, with_fibre, wide=False):
    """returns (detected electrical signal, descriptor); wide: detector bandwidth at the top of its range (sharpest transitions)"""
    Vpi = float(rng.uniform(1, 10))
    loss = float(rng.uniform(0, 10))
    ER = float(rng.uniform(10, 40))
    Pw = float(10 ** rng.uniform(-5, -1))
    r = float(rng.uniform(0.05, 1))
    R_load = float(rng.choice([10, 50, 100, 1e3, 1e4]))
    fs = R * sps
    BW = float(rng.uniform(1.8, 2.0) if wide else rng.uniform(0.7, 2.0)) * R
    BW = min(BW, 0.49 * fs)
    pol = "xy"[int(rng.integers(2))]
    desc = dict(Vpi=Vpi, loss_dB=loss, ER_dB=ER, P=Pw, r=r, R_load=R_load, BW_over_R=BW / R, pol=pol)
    gk = {}
    if shape == "gaussian" and rng.integers(2):          # super-Gaussian orders and explicit widths up to one slot (pulses that stay inside their slot)
        gk = {"m": int(rng.integers(1, 5))}
        if rng.integers(2):
            gk["T"] = int(rng.integers(max(2, (sps + 1) // 2), sps + 1))
    desc["gaussian_args"] = gk
    v = D.DAC(bits, bias=0.0, Vout=Vpi, pulse_shape=shape, **gk)
    n = v.len()
    if rng.integers(2):
        cw = T.optical_signal(np.full(n, np.sqrt(Pw), complex), n_pol=n_pol)
    else:
        with core.quiet():
            T.gv(sps=sps, R=R, N=len(bits))
        cw = D.LASER(T.gv.t if False else np.arange(n) * T.gv.dt, 10 * np.log10(Pw * 1e3))
        if n_pol == 2:
            cw = T.optical_signal(cw.signal, n_pol=2)
    if n_pol == 2 and rng.integers(2):
        # "either polarisation layout": the carrier polarised along the selected axis only, or with unequal power in the two axes
        # (the modulated axis then carries the fraction `split` of the power)
        k = "xy".index(pol)
        split = [1.0, float(rng.uniform(0.2, 0.9))][int(rng.integers(2))]
        rows = np.zeros((2, n), complex)
        rows[k] = cw.signal[0] * np.sqrt(split)
        rows[1 - k] = cw.signal[0] * np.sqrt(1 - split) * np.exp(1j * rng.uniform(0, 6))
        cw = T.optical_signal(rows)
        desc["carrier_layout"] = f"{split:.2f} of the power along {pol}"
    o = D.MZM(cw, v, bias=-Vpi, Vpi=Vpi, loss_dB=loss, ER_dB=ER, pol=pol)
    el = None
    if with_fibre:
        Tslot2 = (1e12 / R) ** 2                       # ps^2
        b2L = float(rng.uniform(-1, 1)) * 0.0099 * Tslot2
        if rng.integers(2):
            L = float(10 ** rng.uniform(-1, 2))
            alpha = float(rng.uniform(0, 0.5))
            o = D.FIBER(o, L, alpha, b2L / L, 0.0, 0.0)
            el = dict(element="FIBER", L=L, alpha=alpha, beta2L=b2L)
        else:
            o = D.DM(o, b2L)
            el = dict(element="DM", D=b2L)
    desc["element"] = el
    # every way of switching the detector's own noise off: no thermal / shot term selected, or the thermal term selected at T = 0 K
    # (the optical input carries no noise component, so the beating terms vanish)
    mode, Tk = [("ase-only", 300.0), ("ase-only", 0.0), ("thermal-only", 0.0), ("ase-thermal", 0.0), ("ASE-ONLY", 77.0), ("ase-thermal", 0)][int(rng.integers(6))]
    desc["pd_noise"] = (mode, Tk)
    y = D.PD(o, BW, r, Tk, R_load, mode, 0.0)
    return y, desc


def w_link(ctx, rng, i):
    sps = int(SPS[i % len(SPS)])
    R = float(rng.choice([1e8, 1e9, 2.5e9, 1e10, 4e10]))
    with core.quiet():
        T.gv(sps=sps, R=R)
    kind = KINDS[(i // len(SPS)) % len(KINDS)]
    n = int(rng.choice([max(5, 17 // sps + 1), 16, 64, 200]))
    bits = pattern(rng, kind, n)
    shape = ["nrz", "gaussian"][int(rng.integers(2))]
    n_pol = int(rng.integers(1, 3))
    with_fibre = bool(rng.integers(2))
    ctx.describe(sps=sps, R=R, kind=kind, n=n, shape=shape, n_pol=n_pol, bits=bits if n <= 64 else None)
    with core.quiet():
        y, desc = build_link(rng, bits, sps, R, shape, n_pol, with_fibre)
        ctx.describe(sps=sps, R=R, kind=kind, n=n, shape=shape, n_pol=n_pol, bits=bits if n <= 64 else None, **desc)
        s = D.SAMPLER(y, sps // 2)
    tot = s.signal + (s.noise if s.noise is not None else 0)
    ctx.check("link.finite", np.all(np.isfinite(tot)) and tot.size == n, "link output is not finite / has the wrong number of slots")
    th = (tot.max() + tot.min()) / 2
    dec = (tot > th).astype(int)
    nerr = int(np.sum(dec != bits))
    ctx.check("link.bits", nerr == 0, f"noise-free link returned {nerr} wrong bits of {n} ({kind}, {shape}, sps={sps}, n_pol={n_pol}, element={desc['element']})", errors_at=np.flatnonzero(dec != bits)[:8])
    # eye opening as a safety margin indicator (not a verdict)
    ones, zeros = tot[bits == 1], tot[bits == 0]
    ctx.bin("eye_open_frac", round(float((ones.min() - zeros.max()) / (tot.max() - tot.min())), 1))
    ctx.case(("link", kind, sps, shape, n_pol, None if desc["element"] is None else desc["element"]["element"], round(np.log10(desc["P"])), round(desc["BW_over_R"], 1)),
             sample=dict(sps=sps, R=R, kind=kind, n=n, shape=shape, n_pol=n_pol, **desc) if i < 6 else None)
    ctx.bin("pattern", kind)
    ctx.bin("shape", shape)


def eye_numbers(e, th):
    """threshold position and level spreads in units of the level distance (witness data for classify)"""
    try:
        d = float(e.mu1) - float(e.mu0)
        return {"th_rel": (float(th) - float(e.mu0)) / d, "s0_rel": float(e.s0) / d, "s1_rel": float(e.s1) / d}
    except Exception:
        return {}


def w_ook_dsp(ctx, rng, i):
    sps = int(rng.choice([4, 4, 4, 5, 5, 6, 8, 9, 16, 17, 32, 64]))     # sharp low-sps eyes are the hostile corner for the eye estimator
    R = float(rng.choice([1e9, 1e10]))
    with core.quiet():
        T.gv(sps=sps, R=R)
    kind = ["random", "prbs"][i % 2]
    n = int(rng.choice([32, 64, 128, 254]))
    bits = pattern(rng, kind, n)
    shape = ["nrz", "gaussian"][int(rng.integers(2))]
    n_pol = int(rng.integers(1, 3))
    seed = int(rng.integers(2 ** 31))
    ctx.describe(sps=sps, R=R, kind=kind, n=n, shape=shape, n_pol=n_pol, numpy_seed=seed)
    with core.quiet():
        y, desc = build_link(rng, bits, sps, R, shape, n_pol, bool(rng.integers(2)), wide=(i % 3 == 0))
        ctx.describe(sps=sps, R=R, kind=kind, n=n, shape=shape, n_pol=n_pol, numpy_seed=seed, **desc)
        np.random.seed(seed)
        rx, eye_obj, rth = O.DSP(y)
        nerr = int(np.sum(rx.data[:n] != bits[: rx.len()])) + abs(rx.len() - n)
        ctx.check("ook.dsp", nerr == 0, f"ook.DSP returned {nerr} wrong bits of {n} ({kind}, {shape}, sps={sps}, n_pol={n_pol}; threshold {rth!r}, eye mu0={getattr(eye_obj, 'mu0', None)!r}, mu1={getattr(eye_obj, 'mu1', None)!r})",
                  swing=float(np.ptp(y.signal)), **eye_numbers(eye_obj, rth))
        if nerr == 0:
            ber = O.BER_analizer("counter", Tx=T.binary_sequence(bits), Rx=rx)
            ctx.check("ber.counter", ber == 0, f"ook.BER_analizer('counter') = {ber!r} for an error-free sequence")
    ctx.case(("ook", kind, sps, shape, n_pol, n), sample=dict(sps=sps, R=R, kind=kind, n=n, shape=shape, n_pol=n_pol, **desc) if i < 3 else None)


def w_ppm_dsp(ctx, rng, i):
    sps = int(rng.choice([4, 6, 8, 16, 32]))
    R = float(rng.choice([1e9, 1e10]))
    with core.quiet():
        T.gv(sps=sps, R=R)
    M = [2, 4, 8, 16][i % 4]
    k = int(np.log2(M))
    nsym = int(rng.choice([16, 32, 64]))
    data = rng.integers(0, 2, nsym * k)
    shape = ["nrz", "gaussian"][int(rng.integers(2))]
    n_pol = int(rng.integers(1, 3))
    seed = int(rng.integers(2 ** 31))
    ctx.describe(sps=sps, R=R, M=M, nsym=nsym, shape=shape, n_pol=n_pol, numpy_seed=seed)
    with core.quiet():
        slots = P.PPM_ENCODER(data, M)
        y, desc = build_link(rng, slots.data, sps, R, shape, n_pol, bool(rng.integers(2)))
        ctx.describe(sps=sps, R=R, M=M, nsym=nsym, shape=shape, n_pol=n_pol, numpy_seed=seed, **desc)
        for decision in ("soft", "hard"):
            np.random.seed(seed)
            rx = P.DSP(y, M, decision=decision)
            nerr = int(np.sum(rx.data[: data.size] != data[: rx.len()])) + abs(rx.len() - data.size)
            ctx.check("ppm.dsp", nerr == 0, f"ppm.DSP({decision}, M={M}) returned {nerr} wrong bits of {data.size} ({shape}, sps={sps}, n_pol={n_pol})", swing=float(np.ptp(y.signal)))
            if nerr == 0:
                ber = P.BER_analizer("counter", Tx=data, Rx=rx)
                ctx.check("ber.counter", ber == 0, f"ppm.BER_analizer('counter') = {ber!r} for an error-free sequence")
    # the electrical waveform itself (no noise component at all), decided twice on the same object: soft, then hard with a given threshold
    with core.quiet():
        xd = D.DAC(slots, Vout=2.0, pulse_shape=shape)
        shp = xd.signal.shape
        for decision, kw in (("soft", {}), ("hard", {"threshold": 1.0}), ("soft", {})):
            rx = P.DSP(xd, M, decision=decision, **kw)
            nerr = int(np.sum(rx.data[: data.size] != data[: rx.len()])) + abs(rx.len() - data.size)
            ctx.check("ppm.dsp", nerr == 0 and xd.signal.shape == shp, f"ppm.DSP({decision}) on the noise-free DAC waveform (same object used repeatedly): {nerr} wrong bits, signal shape {xd.signal.shape} (was {shp})")
    ctx.case(("ppm", M, sps, shape, n_pol, nsym), sample=dict(sps=sps, R=R, M=M, symbols=nsym, shape=shape, n_pol=n_pol, **desc) if i < 3 else None)
    ctx.bin("M", M)


def w_counter(ctx, rng, i):
    n = core.long_or(rng, i, int(rng.choice([1, 2, 10, 100, 1000, 4096])), longs=(40000, 70001), huge=False)
    tx = rng.integers(0, 2, n)
    k = int(rng.integers(0, n + 1))
    idx = rng.permutation(n)[:k]
    rx = tx.copy()
    rx[idx] ^= 1
    ctx.describe(n=n, k=k)
    with core.quiet():
        for mod, name in ((O, "ook"), (P, "ppm")):
            v1 = mod.BER_analizer("counter", Tx=T.binary_sequence(tx), Rx=T.binary_sequence(rx))
            v2 = mod.BER_analizer("counter", Tx=tx.copy(), Rx=rx.copy())
            ctx.check("ber.counter", v1 == k / n and v2 == k / n, f"{name}.BER_analizer('counter') = {v1!r}/{v2!r} for {k} flipped bits of {n} (expected {k / n!r})")
        v3 = P.BER_analizer("counter", Tx="".join(map(str, tx)), Rx=T.binary_sequence(rx))
        ctx.check("ber.counter", v3 == k / n, f"ppm.BER_analizer('counter') with a string Tx = {v3!r}, expected {k / n!r}")
    ctx.case(("cnt", n, k == 0, k == n), sample=dict(n=n, k=k) if i < 3 else None)


def w_two_grids(ctx, rng, i):
    """the same bits, slot rate, detector bandwidth (in Hz) and link parameters on a sequence of sampling grids within one process."""
    R = float(rng.choice([1e9, 1e10]))
    seq = [int(v) for v in rng.choice([4, 5, 8, 16, 32, 64], 3, replace=False)]
    seq = [max(seq), min(seq), seq[[k for k in range(3) if seq[k] not in (max(seq), min(seq))][0]]] if i % 2 else seq
    bits = pattern(rng, ["random", "prbs"][i % 2], 64)
    shape = ["nrz", "gaussian"][int(rng.integers(2))]
    Vpi, Pw, r_, R_load = float(rng.uniform(1, 10)), float(10 ** rng.uniform(-4, -2)), float(rng.uniform(0.2, 1)), float(rng.choice([50, 1e3]))
    BW = float(rng.choice([0.7, 0.75, 1.0, 1.5])) * R
    use_dsp = bool(i % 3 == 0)
    ctx.describe(R=R, sps_sequence=seq, shape=shape, BW_over_R=BW / R, Vpi=Vpi, P=Pw, use_ook_dsp=use_dsp, bits=bits)
    for sps in seq:
        with core.quiet():
            T.gv(sps=sps, R=R)
            v = D.DAC(bits, bias=0.0, Vout=Vpi, pulse_shape=shape)
            cw = T.optical_signal(np.full(v.len(), np.sqrt(Pw), complex))
            y = D.PD(D.MZM(cw, v, bias=-Vpi, Vpi=Vpi, ER_dB=20.0), min(BW, 0.49 * R * sps), r_, 300.0, R_load, "ase-only", 0.0)
            s = D.SAMPLER(y, sps // 2)
            tot = s.signal + s.noise
            dec = (tot > (tot.max() + tot.min()) / 2).astype(int)
            nerr = int(np.sum(dec != bits))
            ctx.check("link.bits", nerr == 0, f"noise-free link returned {nerr} wrong bits of 64 at sps={sps} after the grid sequence {seq} (same BW={BW:.3g} Hz)")
            if use_dsp:
                np.random.seed(1)
                rx, _, _ = O.DSP(y)
                ne2 = int(np.sum(rx.data[:64] != bits[: rx.len()])) + abs(rx.len() - 64)
                ctx.check("ook.dsp", ne2 == 0, f"ook.DSP returned {ne2} wrong bits at sps={sps} after the grid sequence {seq}")
    ctx.case(("grids", tuple(seq), shape, BW / R, use_dsp), sample=dict(R=R, sps_sequence=seq, shape=shape, BW_over_R=BW / R) if i < 2 else None)


def FORM_TWINS():
    import opticomlib.ook as ok
    import opticomlib.ppm as pp
    return [(ok, ["DSP", "BER_analizer"]), (pp, ["DSP", "BER_analizer"])]


WORKLOADS = [
    Workload("link", w_link, 2160, 40000, budget=120),
    Workload("ook_dsp", w_ook_dsp, 600, 6000, budget=120),
    Workload("ppm_dsp", w_ppm_dsp, 160, 4000, budget=120),
    Workload("counter", w_counter, 200, 3000),
    Workload("two_grids", w_two_grids, 90, 3000, budget=120),
]


def classify(v):
    """mechanism key of a violation, from the conditions of the failing case (never from seeds or values)."""
    c = v.get("case") or {}
    if v.get("monitor") == "ook.dsp" and isinstance(c, dict) and "nan" in str(v.get("msg", "")):
        g = c.get("gaussian_args") or {}
        el = c.get("element") or {}
        disp = el.get("beta2L", el.get("D")) if isinstance(el, dict) else None
        slot2 = (1e12 / c["R"]) ** 2 if c.get("R") else None
        if (c.get("shape") == "gaussian" and c.get("sps") == 4 and g.get("T") == 2 and (g.get("m") or 1) >= 2 and (c.get("BW_over_R") or 0) >= 1.8
                and disp is not None and slot2 and disp / slot2 >= 0.0075):
            return "eye-instant-on-slot-boundary-for-half-slot-pulses"
    info = v.get("info") or {}
    if v.get("monitor") == "ook.dsp" and isinstance(c, dict) and isinstance(info, dict) and all(isinstance(info.get(k), (int, float)) for k in ("th_rel", "s0_rel", "s1_rel")):
        glued1 = info["s1_rel"] < 1e-3 and info["th_rel"] > 0.98
        glued0 = info["s0_rel"] < 1e-3 and info["th_rel"] < 0.02
        if (glued0 or glued1) and (c.get("n") or 10 ** 9) <= 64 and (c.get("BW_over_R") or 9) < 0.8:
            return "threshold-glued-to-a-level-on-short-isi-records"
    return None
