"""C05 — DAC waveforms are slot-exact and SAMPLER inverts them."""
import numpy as np

from .. import core
from ..run import Workload

RULE = ("random bit sequences in str/list/tuple/ndarray/binary_sequence form, sps 2..128 (odd and prime included), Vout/bias in "
        "(-48,48) incl. +-47.999 and 0, every sampling instant k in [0,sps); Gaussian metrics on an isolated 1 for sps>=8, "
        "T in [ceil(sps/2), 2*sps], m in 1..4; documented error table. Non-trivial: both symbols present or >= 2 slots; "
        "distinct by (shape, sps, form, length, Vout/bias bins, T, m).")
ASSUMPTIONS = ["Gaussian inverse relation asserted for T <= sps only (for wider pulses neighbouring 1s legitimately exceed half amplitude)",
               "FWHM measured on the amplitude waveform above bias by linear interpolation",
               "levels compared at rtol 1e-12 (one rounding of Vout*b+bias)"]
MIN_CHECKS = {"dac.post": 500, "sampler.post": 500, "inverse": 500, "gauss.metrics": 40, "errors": 50}
SHARDS = {"quick": 4}

D = None
T = None


def bits_of(x):
    if isinstance(x, T.binary_sequence):
        return x.data.astype(float)
    if isinstance(x, str):
        return np.array([int(c) for c in x if c in "01"], dtype=float)
    return np.array(x).astype(bool).astype(float)


def setup(ctx):
    global D, T
    import opticomlib.devices as dv
    import opticomlib.typing as typing_
    D, T = dv, typing_

    def dac_post(orig):
        def wrapper(input, bias=0.0, Vout=1.0, pulse_shape="nrz", BW=None, **kw):
            r = orig(input, bias, Vout, pulse_shape, BW, **kw)
            if core.in_monitor():
                return r
            with core.monitor_scope():
                ctx.call("dac.post")
                b = bits_of(input)
                sps = T.gv.sps
                ok = isinstance(r, T.electrical_signal) and r.signal.ndim == 1 and r.signal.size == b.size * sps
                ctx.check("dac.post", ok, f"DAC returned {getattr(getattr(r, 'signal', None), 'shape', None)} samples for {b.size} bits at sps={sps}")
                if ok and BW is None and pulse_shape in ("nrz", "NRZ", "rect", "rz", "RZ"):
                    vo = 1.0 if Vout is None else Vout
                    bi = 0.0 if bias is None else bias
                    lv = b * vo + bi
                    want = np.repeat(lv, sps)
                    if pulse_shape in ("rz", "RZ"):
                        m = np.tile(np.arange(sps) < sps // 2, b.size)
                        want = np.where(m, want, bi)
                    good = np.allclose(r.signal, want, rtol=1e-12, atol=1e-300) and r.noise is None
                    if not good:
                        bad = int(np.argmax(~np.isclose(r.signal, want, rtol=1e-12, atol=1e-300))) if r.signal.shape == want.shape else -1
                        ctx.check("dac.post", False, f"DAC {pulse_shape}: sample {bad} (slot {bad // sps}, offset {bad % sps}) = {r.signal[bad]!r}, expected {want[bad]!r}", sps=sps, Vout=Vout, bias=bias)
                    else:
                        ctx.check("dac.post", True)
                        # the samples are voltages: the library's own arithmetic on the waveform must treat them as the numbers
                        # bias+Vout*b (a waveform stored in a narrow unsigned type compares equal but wraps under `x - v`)
                        c = float(vo + bi)         # a python float: numpy scalars on the left of `-` would bypass the library's operator
                        with core.quiet():
                            d, e = r - c, c - r
                        ctx.check("dac.arith", np.allclose(np.asarray(d.signal, dtype=float), want - c, rtol=1e-12, atol=1e-12 * max(abs(c), 1.0))
                                  and np.allclose(np.asarray(e.signal, dtype=float), c - want, rtol=1e-12, atol=1e-12 * max(abs(c), 1.0)),
                                  f"DAC {pulse_shape}: waveform - {c!r} / {c!r} - waveform computed by the library differ from the same subtraction on bias+Vout*bits (waveform dtype {r.signal.dtype})", Vout=Vout, bias=bias)
            return r
        return wrapper

    def sampler_post(orig):
        def wrapper(input, instant):
            r = orig(input, instant)
            if core.in_monitor():
                return r
            with core.monitor_scope():
                ctx.call("sampler.post")
                sps = T.gv.sps
                ok = isinstance(r, T.electrical_signal) and np.array_equal(r.signal, input.signal[instant::sps])
                ok = ok and ((r.noise is None and input.noise is None) or (r.noise is not None and input.noise is not None and np.array_equal(r.noise, input.noise[instant::sps])))
                ctx.check("sampler.post", ok, f"SAMPLER(x,{instant}) is not samples {instant},{instant}+sps,... of signal and noise (sps={sps})")
            return r
        return wrapper

    core.attach(dv, "DAC", dac_post)
    core.attach(dv, "SAMPLER", sampler_post)


FORMS = ["str", "list", "tuple", "ndarray", "bs", "str_sp", "nd_bool", "nd_float"]


def render(b, form):
    v = [int(x) for x in b]
    return {"str": lambda: "".join(map(str, v)), "str_sp": lambda: " ".join(map(str, v)), "list": lambda: v, "tuple": lambda: tuple(v),
            "ndarray": lambda: np.array(v), "nd_bool": lambda: np.array(v, dtype=bool), "nd_float": lambda: np.array(v, dtype=float), "bs": lambda: T.binary_sequence(v)}[form]()


def pick_sps(rng, i, tier):
    pool = list(range(2, 129)) if tier == "thorough" else [2, 3, 4, 5, 6, 7, 8, 9, 11, 13, 15, 16, 17, 24, 31, 32, 33, 47, 63, 64, 65, 97, 127, 128]
    return int(pool[i % len(pool)])


def pick_level(rng):
    c = int(rng.integers(8))
    if c == 0:
        return float(rng.choice([47.999, -47.999, 47.999999, 1e-3, -1e-3]))
    if c == 1:
        return int(rng.integers(-47, 48))   # python ints are accepted scalars
    return float(rng.uniform(-48, 48))


def w_levels(ctx, rng, i):
    sps = pick_sps(rng, i, ctx.tier)
    T.gv(sps=sps, R=float(10 ** rng.uniform(6, 10.5)))
    n = core.long_or(rng, i, int(rng.choice([1, 2, 3, 8, 33, 200])), longs=(5000, 20011, 70001), every=64, huge=False)   # long bit records (x sps samples)
    b = rng.integers(0, 2, n)
    if i % 5 == 0:
        b[:] = i // 5 % 2
    shape = str(rng.choice(["nrz", "rz", "rect", "NRZ", "RZ"]))
    Vout = pick_level(rng)
    bias = pick_level(rng) if rng.integers(4) else 0.0
    if Vout == 0:
        Vout = 1
    form = FORMS[int(rng.integers(len(FORMS)))]
    ctx.describe(sps=sps, n=n, shape=shape, Vout=Vout, bias=bias, form=form, bits=b)
    with core.quiet():
        x = D.DAC(render(b, form), bias=bias, Vout=Vout, pulse_shape=shape)   # dac.post decides the levels
        ref_ = D.DAC(b.copy(), bias=bias, Vout=Vout, pulse_shape=shape)
        ctx.check("dac.forms", np.array_equal(x.signal, ref_.signal), f"DAC output differs between container form {form} and ndarray")
        ks = range(sps) if sps <= 16 or ctx.tier == "thorough" else sorted(set([0, 1, sps // 2 - 1, sps // 2, sps - 1] + [int(k) for k in rng.integers(0, sps, 4)]))
        for k in ks:
            y = D.SAMPLER(x, k)
            ctx.check("sampler.len", y.len() == n, f"SAMPLER(x,{k}) returned {y.len()} samples for {n} slots")
            inside = shape.lower() in ("nrz", "rect") or k < sps // 2
            if inside:
                dec = ((y.signal - bias) / Vout > 0.5).astype(int)
                ctx.check("inverse", np.array_equal(dec, b), f"{shape} sampled at k={k} and compared with bias+Vout/2 does not return the bits", sps=sps)
            else:
                ctx.check("rz.rest", np.allclose(y.signal, bias, rtol=1e-12, atol=0), f"rz sample at k={k} (>= sps//2) is not bias")
        # noise travels through SAMPLER like the signal
        x2 = T.electrical_signal(x.signal, rng.normal(0, 1, x.len()))
        D.SAMPLER(x2, int(rng.integers(0, sps)))
        D.SAMPLER(x2, sps // 2)
    ctx.case(("lv", shape.lower(), sps, form, n, round(Vout / 8), round(bias / 8)), nontrivial=n >= 2 or True, sample={"sps": sps, "bits": b, "shape": shape, "Vout": Vout, "bias": bias, "form": form} if i < 4 else None)
    ctx.bin("sps_parity", "odd" if sps % 2 else "even")
    ctx.bin("shape", shape.lower())


def fwhm(y, peak_idx):
    half = y[peak_idx] / 2
    l = peak_idx
    while l > 0 and y[l] > half:
        l -= 1
    r = peak_idx
    while r < y.size - 1 and y[r] > half:
        r += 1
    if y[l] > half or y[r] > half:
        return np.nan
    xl = l + (half - y[l]) / (y[l + 1] - y[l])
    xr = r - (half - y[r]) / (y[r - 1] - y[r])
    return xr - xl


def w_gauss(ctx, rng, i):
    pool = list(range(8, 129)) if ctx.tier == "thorough" else [8, 9, 11, 12, 15, 16, 17, 23, 32, 33, 64, 65, 127, 128]
    sps = int(pool[i % len(pool)])
    T.gv(sps=sps, R=1e9)
    Tw = int(rng.integers((sps + 1) // 2, 2 * sps + 1))
    if i % 6 == 0:
        Tw = [(sps + 1) // 2, 2 * sps, sps][i // 6 % 3]
    m = int(rng.integers(1, 5))
    Vout = float(rng.uniform(0.05, 47)) * float(rng.choice([1, 1, -1]))
    bias = float(rng.uniform(-40, 40)) if rng.integers(2) else 0.0
    pad = 5
    b = np.zeros(2 * pad + 1, dtype=int)
    b[pad] = 1
    ctx.describe(sps=sps, T=Tw, m=m, Vout=Vout, bias=bias)
    with core.quiet():
        x = D.DAC(b, bias=bias, Vout=Vout, pulse_shape="gaussian", T=Tw, m=m)
    ok = x.len() == b.size * sps and not np.iscomplexobj(x.signal) or np.allclose(np.imag(x.signal), 0)
    ctx.check("gauss.metrics", ok, "gaussian DAC output has the wrong length or is not real for c=0")
    y = (np.real(x.signal) - bias) / Vout
    pk = int(np.argmax(y))
    top = np.flatnonzero(y >= y[pk] * (1 - 1e-9))          # flat-topped (super-Gaussian) pulses: the peak is the middle of the plateau
    pk_pos = float(top.mean())
    centre = pad * sps + sps / 2
    ctx.check("gauss.metrics", abs(pk_pos - centre) <= 1.0 + 1e-9 and top[-1] - top[0] + 1 == top.size, f"gaussian peak at sample {pk_pos}, slot centre {centre} (more than one sample away)")
    ctx.check("gauss.metrics", abs(y[pk] - 1) <= 0.05, f"gaussian peak reaches {y[pk]:.4f}*Vout (not within 5%)")
    w = fwhm(y, pk)
    ctx.check("gauss.metrics", np.isfinite(w) and abs(w - Tw) <= 1.0 + 1e-9, f"gaussian FWHM {w:.3f} samples, T={Tw} (more than one sample off)")
    ctx.case(("gauss", sps, Tw, m, Vout > 0), sample={"sps": sps, "T": Tw, "m": m, "Vout": Vout, "bias": bias, "peak_idx": pk, "peak": float(y[pk]), "fwhm": float(w)} if i < 4 else None)
    ctx.bin("gauss.m", m)


def w_gauss_inverse(ctx, rng, i):
    sps = pick_sps(rng, i, ctx.tier)
    if sps < 4:
        sps = 4 + sps
    T.gv(sps=sps, R=1e9)
    Tw = int(rng.integers((sps + 1) // 2, sps + 1))
    m = int(rng.integers(1, 5))
    n = int(rng.choice([3, 8, 33, 100]))
    b = rng.integers(0, 2, n)
    Vout = float(rng.uniform(0.1, 47)) * float(rng.choice([1, -1]))
    bias = float(rng.uniform(-40, 40))
    form = FORMS[int(rng.integers(len(FORMS)))]
    ctx.describe(sps=sps, T=Tw, m=m, n=n, Vout=Vout, bias=bias, bits=b)
    with core.quiet():
        x = D.DAC(render(b, form), bias=bias, Vout=Vout, pulse_shape="gaussian", T=Tw, m=m)
        y = D.SAMPLER(x, sps // 2)
        x0 = D.DAC(b, bias=bias, Vout=Vout, pulse_shape="GAUSSIAN", T=Tw, m=m)
    ctx.check("dac.forms", np.array_equal(x.signal, x0.signal), "gaussian DAC differs between container forms / letter case")
    dec = ((np.real(y.signal) - bias) / Vout > 0.5).astype(int)
    # the record edges lose the part of the pulse that falls outside the record: first/last slot excluded
    ctx.check("inverse", np.array_equal(dec[1:-1], b[1:-1]), f"gaussian (T={Tw}<=sps) sampled at k=sps//2 does not return the bits", sps=sps, got=dec, want=b)
    ctx.case(("ginv", sps, Tw, m, n, form), sample={"sps": sps, "T": Tw, "m": m, "bits": b} if i < 3 else None)


def w_errors(ctx, rng, i):
    """the documented error table; every entry is presented with exactly ONE invalid argument while the container form of the
    bits and all the other (valid) arguments vary, so that a check reachable only on some call paths is still exercised."""
    T.gv(sps=int(rng.choice([8, 16, 5])), R=1e9)
    sps = T.gv.sps
    bits = rng.integers(0, 2, int(rng.choice([1, 4, 9])))
    ctx.describe(sps=sps, i=i, bits=bits)
    big = float(rng.choice([48, -48, 50, -50, 48.0001, 1e3, -1e6]))
    used = set()

    def b():
        if rng.integers(6) == 0:
            used.add("prbs")
            return D.PRBS(order=7, len=int(rng.integers(1, 20)))
        f = FORMS[int(rng.integers(len(FORMS)))]
        used.add(f)
        return render(bits, f)

    def ctxargs(shape, skip=()):
        """valid values for the arguments that are not under test (sometimes left at their defaults)"""
        kw = {}
        if "Vout" not in skip and rng.integers(2):
            kw["Vout"] = pick_level(rng) or 1
        if "bias" not in skip and rng.integers(2):
            kw["bias"] = pick_level(rng)
        if shape.lower() == "gaussian":
            if "T" not in skip and rng.integers(2):
                kw["T"] = int(rng.integers(1, 2 * sps + 1))
            if "m" not in skip and rng.integers(2):
                kw["m"] = int(rng.integers(1, 5))
            if "c" not in skip and rng.integers(2):
                kw["c"] = float(rng.choice([0, 0.5, -2, 1]))
        return kw

    with core.quiet():
        for shape in ("nrz", "rz", "gaussian", "NRZ", "RZ", "GAUSSIAN", "rect"):
            ctx.raises("errors", ValueError, D.DAC, b(), Vout=big, pulse_shape=shape, **ctxargs(shape, ("Vout",)))
            ctx.raises("errors", ValueError, D.DAC, b(), bias=big, pulse_shape=shape, **ctxargs(shape, ("bias",)))
            ctx.raises("errors", TypeError, D.DAC, b(), Vout="5", pulse_shape=shape, **ctxargs(shape, ("Vout",)))
            ctx.raises("errors", TypeError, D.DAC, b(), bias=1 + 1j, pulse_shape=shape, **ctxargs(shape, ("bias",)))
            ctx.raises("errors", TypeError, D.DAC, b(), Vout=[1.0], pulse_shape=shape, **ctxargs(shape, ("Vout",)))
            ctx.raises("errors", TypeError, D.DAC, b(), Vout=2 + 0j, pulse_shape=shape, **ctxargs(shape, ("Vout",)))
            ctx.raises("errors", TypeError, D.DAC, b(), bias="0", pulse_shape=shape, **ctxargs(shape, ("bias",)))
        for shape in ("gaussian", "GAUSSIAN"):
            ctx.raises("errors", ValueError, D.DAC, b(), pulse_shape=shape, T=0, **ctxargs(shape, ("T",)))
            ctx.raises("errors", ValueError, D.DAC, b(), pulse_shape=shape, T=-int(rng.integers(1, 10)), **ctxargs(shape, ("T",)))
            ctx.raises("errors", ValueError, D.DAC, b(), pulse_shape=shape, T=2 * sps + int(rng.integers(1, 50)), **ctxargs(shape, ("T",)))
            ctx.raises("errors", TypeError, D.DAC, b(), pulse_shape=shape, T=8.5, **ctxargs(shape, ("T",)))
            ctx.raises("errors", TypeError, D.DAC, b(), pulse_shape=shape, T=float(sps), **ctxargs(shape, ("T",)))
            ctx.raises("errors", ValueError, D.DAC, b(), pulse_shape=shape, m=0, **ctxargs(shape, ("m",)))
            ctx.raises("errors", ValueError, D.DAC, b(), pulse_shape=shape, m=-2, **ctxargs(shape, ("m",)))
            ctx.raises("errors", TypeError, D.DAC, b(), pulse_shape=shape, m=1.5, **ctxargs(shape, ("m",)))
            ctx.raises("errors", TypeError, D.DAC, b(), pulse_shape=shape, c=1 + 1j, **ctxargs(shape, ("c",)))
            ctx.raises("errors", TypeError, D.DAC, b(), pulse_shape=shape, c="0", **ctxargs(shape, ("c",)))
        ctx.raises("errors", ValueError, D.DAC, b(), pulse_shape=str(rng.choice(["triangle", "sinc", "", "nrzz", "gauss"])), **ctxargs("nrz"))
        # values just inside the range are accepted, whatever the container
        arg = b()
        x = D.DAC(arg, Vout=47.999, bias=-47.999)
        ctx.check("errors", x.len() == bits_of(arg).size * sps, "in-range Vout/bias rejected or wrong length")
    for f in used:
        ctx.bin("errors.form", f)
    ctx.case(("err", sps, i % 8, big), sample={"sps": sps, "out_of_range": big} if i < 2 else None)


def w_two_grids(ctx, rng, i):
    """identical DAC / SAMPLER arguments on grid A, grid B and grid A again within one process: nothing may be remembered."""
    a, b = (int(v) for v in rng.choice([2, 3, 4, 5, 8, 9, 16, 17, 32, 33, 64], 2, replace=False))
    bits = rng.integers(0, 2, int(rng.choice([4, 16, 50])))
    shape = str(rng.choice(["nrz", "rz", "gaussian"]))
    Vout, bias = pick_level(rng) or 1, pick_level(rng)
    kw = {"T": min(a, b), "m": int(rng.integers(1, 4))} if shape == "gaussian" else {}
    ctx.describe(sps_sequence=[a, b, a], shape=shape, Vout=Vout, bias=bias, bits=bits)
    outs = []
    for sps in (a, b, a):
        with core.quiet():
            T.gv(sps=sps, R=1e9)
            x = D.DAC(bits, bias=bias, Vout=Vout, pulse_shape=shape, **kw)         # dac.post decides
            y = D.SAMPLER(x, sps // 2)                                              # sampler.post decides
        ctx.check("grid.length", x.len() == bits.size * sps and y.len() == bits.size, f"DAC/SAMPLER lengths wrong after the grid changed to sps={sps} (sequence {a},{b},{a})")
        outs.append(x.signal)
    ctx.check("grid.history", np.array_equal(outs[0], outs[2]), f"DAC result on sps={a} differs after a visit to sps={b}")
    ctx.case(("grids", a, b, shape), sample=dict(sps_sequence=[a, b, a], shape=shape) if i < 2 else None)


def FORM_TWINS():
    import opticomlib.devices as dv
    return [(dv, ["DAC", "SAMPLER"])]


WORKLOADS = [
    Workload("levels", w_levels, 5000, 200000),
    Workload("gauss", w_gauss, 1500, 60000),
    Workload("gauss_inverse", w_gauss_inverse, 1500, 60000),
    Workload("errors", w_errors, 30, 600),
    Workload("repo_tests", lambda ctx, rng, i: core.run_repo_tests(ctx), 1, 1, budget=1800, tiers=("thorough",)),
    Workload("two_grids", w_two_grids, 300, 20000),
]


def classify(v):
    return None
