"""C19 — unit conversions, Q, gaus, rcos, dec2bin, str2array, si are self-consistent.

Monitors: value postconditions attached to db/dbm/idb/idbm/Q in every opticomlib module (so calls made by
devices are checked too) + relation workloads executed against the real functions.
Oracles: numpy/scipy/python-float only.
"""
import math
import re

import numpy as np
import scipy.special as sp
from scipy.integrate import quad

from .. import core
from ..run import Workload

RULE = ("seeded random + boundary inputs for every function; dec2bin enumerated completely for d<=16; a case is "
        "non-trivial unless it is a repeat; distinct by (function, input form, discretised parameters).")
ASSUMPTIONS = ["numpy.log10/erfc and Python float() parsing are the trusted references",
               "si(): 'μ', 'µ' and 'u' are all accepted as the micro prefix"]
TOLERANCES = {"inverse_pairs_rtol": 1e-12, "db_additivity_atol": 1e-9, "Q_rtol": 1e-12, "gaus_integral": 1e-7}
MIN_CHECKS = {"db.value": 50, "idb.value": 50, "si.roundtrip": 100, "dec2bin.value": 1000, "str2array.roundtrip": 50, "rcos.relations": 50, "Q.relations": 20}
SHARDS = {"quick": 4}

U = None  # opticomlib.utils


def setup(ctx):
    global U
    import opticomlib.utils as utils
    U = utils

    def post(name, ref, rtol=1e-12, atol=0.0):
        def make(orig):
            def wrapper(x, *a, **k):
                r = orig(x, *a, **k)
                if core.in_monitor():
                    return r
                ctx.call(f"{name}.value")
                try:
                    with core.monitor_scope(), np.errstate(all="ignore"):
                        want = ref(np.array(x, dtype=float) if not np.iscomplexobj(x) else np.array(x))
                        fin = np.isfinite(want)
                        # data handed over in single / half precision is answered in that precision (numpy's own rule): a few of its ulps
                        xd = getattr(x, "dtype", None)
                        slack = 0.0
                        if xd is not None and np.dtype(xd).kind in "fiu" and np.dtype(xd).itemsize < 8:
                            # ... and so is integer data of 8 / 16 bits, which numpy's transcendental functions answer in half / single precision
                            slack = 64 * float(np.finfo(np.log10(np.ones(1, dtype=xd)).dtype).eps)
                            slack = slack if slack > 1e-14 else 0.0
                        ok = np.shape(r) == np.shape(want) and bool(np.all(np.abs(np.asarray(r, float)[fin] - want[fin]) <= atol + (rtol + slack) * np.abs(want[fin]) + slack))
                    ctx.check(f"{name}.value", ok, f"{name}({core.jsonable(x)}) returned {core.jsonable(r)}, reference {core.jsonable(want)}")
                except Exception as e:
                    ctx.not_observed(f"{name}.value")
                return r
            return wrapper
        core.attach(utils, name, make)

    post("db", lambda x: 10 * np.log10(x))
    post("dbm", lambda x: 10 * np.log10(x) + 30, atol=1e-11)
    post("idb", lambda x: np.power(10.0, x / 10))
    post("idbm", lambda x: np.power(10.0, x / 10) * 1e-3)
    post("Q", lambda x: 0.5 * sp.erfc(x / math.sqrt(2)), atol=1e-300)


# ------------------------------------------------------------------------------------------
def w_db(ctx, rng, i):
    form = ["scalar", "npscalar", "list", "tuple", "array", "array2d"][i % 6]
    n = int(rng.integers(1, 40))
    x = 10.0 ** rng.uniform(-15, 15, n)
    y = 10.0 ** rng.uniform(-15, 15, n)
    d = rng.uniform(-300, 300, n)
    if i % 11 == 0:
        d[0] = [-300.0, 300.0, 0.0][(i // 11) % 3]
        x[0] = [1e-15, 1e15, 1.0][(i // 11) % 3]

    def shape(v):
        if form == "scalar":
            return float(v[0])
        if form == "npscalar":
            return np.float64(v[0])
        if form == "list":
            return v.tolist()
        if form == "tuple":
            return tuple(v.tolist())
        if form == "array2d":
            return np.stack([v, v[::-1]])
        return v
    X, Y, D = shape(x), shape(y), shape(d)
    xa, ya, da = np.asarray(X, float), np.asarray(Y, float), np.asarray(D, float)
    ctx.describe(form=form, x=X, d=D)
    with core.quiet():
        if form == "npscalar":
            # numpy scalars are floats: accepted
            pass
        ctx.close("db.inverse", U.idb(U.db(X)), xa, rtol=1e-12, msg="idb(db(x)) != x")
        ctx.close("db.inverse", U.idbm(U.dbm(X)), xa, rtol=1e-12, msg="idbm(dbm(x)) != x")
        ctx.close("db.inverse", U.db(U.idb(D)), da, rtol=1e-12, atol=1e-11, msg="db(idb(d)) != d")
        ctx.close("db.inverse", U.dbm(U.idbm(D)), da, rtol=1e-12, atol=1e-11, msg="dbm(idbm(d)) != d")
        ctx.close("db.additive", U.db(xa * ya), U.db(X) + U.db(Y), rtol=0, atol=1e-9, msg="db(xy) != db(x)+db(y)")
        ctx.close("db.dbm_offset", U.dbm(X), U.db(X) + 30, rtol=0, atol=1e-10, msg="dbm(x) != db(x)+30")
        ctx.check("db.shape", np.shape(U.db(X)) == xa.shape and np.shape(U.idb(D)) == da.shape, "result shape differs from input shape")
        # whole-number levels and powers stored in any integer or narrow float dtype (a table of attenuator settings in uint8, counts in
        # uint16 ...): the value is what counts, the arithmetic must not happen in the carrier's dtype
        if i % 3 == 0:
            dt = [np.uint8, np.int8, np.uint16, np.int16, np.uint32, np.int32, np.uint64, np.int64, np.float32][(i // 3) % 9]      # (float16 is left out: 1e3 * x already overflows it — the carrier's own range, not the library's arithmetic)
            lo_d = 0 if np.dtype(dt).kind == "u" else -100
            di = rng.integers(lo_d, 101, n).astype(dt)
            xi = rng.integers(1, 120, n).astype(dt)
            tol = max(1e-12, 64 * float(np.finfo(np.log10(np.ones(1, dtype=dt)).dtype).eps)) if np.dtype(dt).itemsize < 8 else 1e-12     # numpy answers 8 / 16-bit data in half / single precision
            ctx.close("db.dtypes", U.idb(di), 10.0 ** (di.astype(float) / 10), rtol=tol, msg=f"idb of an array of dtype {np.dtype(dt)}")
            ctx.close("db.dtypes", U.idbm(di), 10.0 ** (di.astype(float) / 10 - 3), rtol=tol, msg=f"idbm of an array of dtype {np.dtype(dt)}")
            ctx.close("db.dtypes", U.db(xi), 10 * np.log10(xi.astype(float)), rtol=tol, atol=tol, msg=f"db of an array of dtype {np.dtype(dt)}")
            ctx.close("db.dtypes", U.dbm(xi), 10 * np.log10(xi.astype(float)) + 30, rtol=tol, atol=tol, msg=f"dbm of an array of dtype {np.dtype(dt)}")
            ctx.close("db.dtypes", U.dbm(U.idbm(di)), di.astype(float), rtol=tol, atol=1e3 * tol, msg=f"dbm(idbm(y)) for y of dtype {np.dtype(dt)}")
        neg = -xa if xa.ndim == 0 else np.where(np.arange(xa.size).reshape(xa.shape) == int(rng.integers(xa.size)), -xa, xa)
        negv = float(neg) if form in ("scalar",) else (neg.tolist() if form in ("list",) else (tuple(neg.tolist()) if form == "tuple" else neg))
        if form == "npscalar":
            negv = np.float64(neg)
        ctx.raises("db.negative", ValueError, U.db, negv)
        ctx.raises("db.negative", ValueError, U.dbm, negv)
    ctx.case(("db", form, n if form not in ("scalar", "npscalar") else 1, i), sample={"form": form, "x": X, "dB": D} if i < 12 else None)
    ctx.bin("db.form", form)


def w_q(ctx, rng, i):
    n = core.long_or(rng, i, int(rng.integers(2, 200)))
    x = np.sort(rng.uniform(-10, 10, n) if i % 3 else rng.normal(0, 3, n))
    form = ["array", "list", "scalar"][(i // 3) % 3] if n <= 200000 else "array"
    ctx.describe(form=form, n=n, lo=float(x[0]), hi=float(x[-1]))
    with core.quiet():
        q = U.Q(x if form != "list" else x.tolist()) if form != "scalar" else np.array([U.Q(float(v)) for v in x])
        qm = U.Q(-x)
        ctx.close("Q.relations", q + qm, np.ones(n), rtol=1e-12, msg="Q(x)+Q(-x) != 1")
        ctx.check("Q.relations", np.all(np.diff(q) <= 0), "Q is not non-increasing on sorted inputs", x=x, q=q)
        sep = np.diff(x) > 1e-6
        ctx.check("Q.relations", np.all(np.diff(q)[sep] < 0) if np.all(np.abs(x) < 8) else True, "Q not strictly decreasing on separated inputs")
        ctx.check("Q.relations", float(U.Q(0)) == 0.5 and float(U.Q(0.0)) == 0.5, "Q(0) != 1/2")
        ctx.check("Q.relations", np.all((q >= 0) & (q <= 1)), "Q outside [0,1]")
        perm = rng.permutation(n)
        ctx.check("Q.relations", np.array_equal(np.asarray(U.Q(x[perm]), float), np.asarray(q, float)[perm]) and np.array_equal(np.asarray(U.Q(x[::-1].tolist()), float), np.asarray(q, float)[::-1]),
                  "Q of a shuffled / reversed array differs from the shuffled / reversed values of Q (not element-wise)")
        # gaus integrates to one; equals the normal pdf
        mu = float(rng.uniform(-5, 5))
        std = float(10 ** rng.uniform(-3, 2))
        val, _ = quad(lambda t: float(U.gaus(t, mu, std)), mu - 12 * std, mu + 12 * std, points=[mu], limit=200)
        ctx.close("gaus.integral", val, 1.0, rtol=1e-7, msg="gaus does not integrate to one", mu=mu, std=std)
        t = mu + std * rng.uniform(-5, 5, 16)
        ctx.close("gaus.value", U.gaus(t, mu, std), np.exp(-0.5 * ((t - mu) / std) ** 2) / (std * math.sqrt(2 * math.pi)), rtol=1e-12, msg="gaus != normal pdf")
        ctx.close("gaus.value", U.gaus(t.tolist()), np.exp(-0.5 * t ** 2) / math.sqrt(2 * math.pi), rtol=1e-12, msg="gaus default mu/std")
    ctx.case(("Q", form, n, round(mu, 1), round(math.log10(std))), sample={"form": form, "n": n, "mu": mu, "std": std} if i < 4 else None)


def w_rcos(ctx, rng, i):
    T = float(10 ** rng.uniform(-2, 2)) if i % 4 else float([1, 2, 0.5, 8][(i // 4) % 4])
    alpha = float(rng.uniform(0.01, 1)) if i % 5 else float([1.0, 0.0, 0.5, 0.25, 1e-3][(i // 5) % 5])
    edge = (1 + alpha) / (2 * T)
    n = int(rng.integers(3, 60))
    x = rng.uniform(-2.5 * edge, 2.5 * edge, n)
    flat = (1 - alpha) / (2 * T)
    x = np.concatenate([x, [edge * (1 + 1e-9), -edge * (1 + 1e-9), edge * (1 - 1e-9), flat * (1 - 1e-9), -flat * (1 + 1e-9), 0.0, edge * (1 + 10 ** rng.uniform(-8, -1))]])
    n = x.size
    ctx.describe(T=T, alpha=alpha, n=n)
    with core.quiet():
        ya = U.rcos(x, alpha, T)
        ctx.check("rcos.relations", np.all((ya >= 0) & (ya <= 1)), "rcos outside [0,1]", x=x, y=ya)
        ctx.close("rcos.relations", U.rcos(-x, alpha, T), ya, rtol=1e-12, atol=1e-15, msg="rcos not even")
        ctx.check("rcos.relations", np.all(ya[np.abs(x) > edge * (1 + 1e-12)] == 0), "rcos not zero beyond (1+alpha)/(2T)")
        ctx.check("rcos.relations", np.all(ya[np.abs(x) <= (1 - alpha) / (2 * T) * (1 - 1e-12)] == 1), "rcos not one on the flat top")
        if alpha > 0:
            ctx.close("rcos.relations", U.rcos(1 / (2 * T), alpha, T), 0.5, rtol=1e-9, atol=1e-12, msg="rcos(1/(2T)) != 1/2")
            ctx.close("rcos.relations", U.rcos(np.array([1 / (2 * T), -1 / (2 * T)]), alpha, T), [0.5, 0.5], rtol=1e-9, atol=1e-12, msg="rcos(±1/(2T)) != 1/2 (array)")
            inside = (np.abs(x) > (1 - alpha) / (2 * T)) & (np.abs(x) < edge)
            ref = 0.5 * (1 + np.cos(np.pi * T / alpha * (np.abs(x[inside]) - (1 - alpha) / (2 * T))))
            ctx.close("rcos.value", ya[inside], ref, rtol=1e-9, atol=1e-12, msg="rcos roll-off differs from raised cosine")
        # container forms agree
        ys = np.array([U.rcos(float(v), alpha, T) for v in x], dtype=float)
        ctx.close("rcos.forms", ys, ya, rtol=1e-12, atol=1e-15, msg="scalar and array inputs disagree")
        ctx.close("rcos.forms", np.asarray(U.rcos(x.tolist(), alpha, T), float), ya, rtol=1e-12, atol=1e-15, msg="list and array inputs disagree")
        ctx.close("rcos.forms", np.asarray(U.rcos(tuple(x.tolist()), alpha, T), float), ya, rtol=1e-12, atol=1e-15, msg="tuple and array inputs disagree")
        # integer-valued grids: int array vs the same values as floats
        k = np.arange(-4, 5)
        Ti = float([0.125, 0.25, 0.2, 0.1][i % 4])
        yi = np.asarray(U.rcos(k, alpha, Ti), float)
        yf = np.asarray(U.rcos(k.astype(float), alpha, Ti), float)
        ctx.close("rcos.int_array", yi, yf, rtol=1e-12, atol=1e-15, msg="int-array input differs from float-array input", x=k, T=Ti, alpha=alpha)
    ctx.case(("rcos", round(math.log10(T), 1), round(alpha, 2), n), sample={"T": T, "alpha": alpha, "x": x} if i < 3 else None)


def w_dec2bin(ctx, rng, i):
    """index i enumerates digits d = 1..16; all v in [0, 2^d) are executed (exhaustive)."""
    d = i + 1
    ctx.describe(d=d)
    weights = 2 ** np.arange(d - 1, -1, -1, dtype=np.int64)
    bad = 0
    for v in range(2 ** d):
        b = U.dec2bin(v, d)
        ok = isinstance(b, np.ndarray) and b.shape == (d,) and bool(np.all((b == 0) | (b == 1))) and int(np.dot(b.astype(np.int64), weights)) == v
        if not ok:
            bad += 1
            if bad <= 2:
                ctx.check("dec2bin.value", False, f"dec2bin({v},{d}) = {b!r} is not the big-endian expansion")
                continue
        ctx.counters["dec2bin.value"]["checks"] += 1
        if not ok:
            ctx.counters["dec2bin.value"]["failures"] += 1
    ctx.evaluations += 2 ** d - 1
    for v in [2 ** d, 2 ** d + 1, 2 ** (d + 1), 2 ** d + int(rng.integers(1, 10 ** 6))]:
        ctx.raises("dec2bin.too_large", ValueError, U.dec2bin, v, d)
    ctx.check("dec2bin.default_digits", np.array_equal(U.dec2bin(d), [int(c) for c in format(d, "08b")]), "default digits=8 expansion wrong")
    ctx.case(("dec2bin", d), sample={"d": d, "values": 2 ** d})
    for v in range(min(2 ** d, 64)):
        ctx.sigs.add(f"dec2bin-{d}-{v}")


SEPS = [(" ", ";"), (",", ";"), (", ", ";"), (" ", "; "), (",", " ; "), ("  ", ";"), (" , ", ";")]


def _fmt(v, kind, dec, unit):
    if kind == "int":
        return str(int(v))
    if kind == "float":
        return f"{v:.{dec}f}"
    re_, im_ = v.real, v.imag
    return f"{re_:.{dec}f}{im_:+.{dec}f}{unit}"


def w_str2array(ctx, rng, i):
    kind = ["int", "float", "complex", "bits"][i % 4]
    rows = int(rng.integers(1, 4))
    cols = int(rng.integers(1, 7))
    two_d = bool(rng.integers(2)) and rows > 1
    sep, rsep = SEPS[int(rng.integers(len(SEPS)))]
    dec = int(rng.integers(1, 5))
    unit = "ij"[int(rng.integers(2))]
    shape = (rows, cols) if two_d else (cols,)
    if kind == "int":
        a = rng.integers(-999, 1000, shape)
        if i % 12 == 0:        # integers that a float64 cannot hold (|v| > 2**53, odd): an int array is inverted exactly, not to 16 digits
            big = np.array([2 ** 53 + 1, -(2 ** 53 + 1), 2 ** 62 + 1, 123456789012345678, -(2 ** 60 + 7), 2 ** 53 + 3])
            m = rng.integers(2, size=shape) == 0
            a = np.where(m, big[rng.integers(big.size, size=shape)], a)
        if np.all((a == 0) | (a == 1)) or True:
            # make sure the text is not a pure 0/1 text: force one entry outside digits {0,1}
            a.flat[int(rng.integers(a.size))] = int(rng.choice([2, -1, 37, -250, 9]))
    elif kind == "float":
        a = np.round(rng.uniform(-100, 100, shape) * 10.0 ** int(rng.integers(-1, 2)), dec)
    elif kind == "complex":
        a = np.round(rng.uniform(-50, 50, shape), dec) + 1j * np.round(rng.uniform(-50, 50, shape), dec)
    else:
        a = rng.integers(0, 2, shape)
    A2 = a if a.ndim == 2 else a[None, :]
    toks = [[_fmt(v, "int" if kind == "bits" else kind, dec, unit) for v in r] for r in A2]
    if kind == "bits":
        style = int(rng.integers(3))
        if style == 0:
            text = rsep.join("".join(r) for r in toks)         # '0101;1100'
        elif style == 1:
            text = rsep.join(sep.join(r) for r in toks)        # '0 1 0 1'
        else:
            g = int(rng.integers(1, 4))
            text = rsep.join(" ".join("".join(r[j:j + g]) for j in range(0, len(r), g)) for r in toks)  # '01 01'
    else:
        text = rsep.join(sep.join(r) for r in toks)
    if rng.integers(4) == 0:
        text = " " + text + " "
    want = np.array([[complex(t.replace("i", "j")) if kind == "complex" else (float(t) if kind == "float" else int(t)) for t in r] for r in toks])
    if a.ndim == 1:
        want = want[0]
    ctx.describe(kind=kind, text=text, shape=shape)
    with core.quiet():
        got = U.str2array(text)
        ctx.check("str2array.roundtrip", isinstance(got, np.ndarray) and got.shape == want.shape and np.array_equal(got, want),
                  f"str2array({text!r}) = {core.jsonable(got)}; the text renders {core.jsonable(want)}")
        kinds_ok = {"int": "iu", "float": "f", "complex": "c", "bits": "b"}[kind]
        ctx.check("str2array.dtype", got.dtype.kind in kinds_ok, f"dtype {got.dtype} for {kind} text {text!r}")
        # explicit dtype is honoured
        for dt in ([bool] if kind == "bits" else []) + ([complex] if kind != "bits" else []) + ([float] if kind in ("int", "float") else []) + ([int] if kind == "int" else []):
            g2 = U.str2array(text, dtype=dt)
            ctx.check("str2array.explicit_dtype", g2.dtype == np.dtype(dt) and g2.shape == want.shape and np.array_equal(g2, want.astype(dt)),
                      f"str2array({text!r}, dtype={dt.__name__}) = {core.jsonable(g2)}")
        if kind == "bits":
            # numeric dtype given: tokens are numbers, not bit patterns
            ttoks = [[t for t in re.split(r"[,\s]+", r.strip()) if t] for r in text.split(";")]
            if len({len(r) for r in ttoks}) == 1:
                for dt in (int, float, complex):
                    wantn = np.array([[dt(int(t)) for t in r] for r in ttoks])
                    if len(ttoks) == 1:
                        wantn = wantn[0]
                    g3 = U.str2array(text, dtype=dt)
                    ctx.check("str2array.numeric_dtype_on_01_text", g3.dtype == np.dtype(dt) and g3.shape == wantn.shape and np.array_equal(g3, wantn),
                              f"str2array({text!r}, dtype={dt.__name__}) = {core.jsonable(g3)}, want {core.jsonable(wantn)}")
        # any other character is rejected
        bad = str(rng.choice(list("abcdefghklmnopqrstuvwxyzABCXYZ_#/*()[]{}=:!?%&'\"@$^~<>|\\")))
        pos = int(rng.integers(0, len(text) + 1))
        ctx.raises("str2array.invalid_char", ValueError, U.str2array, text[:pos] + bad + text[pos:])
        # ... including characters that python's own int() / float() would read as digits or signs: non-ASCII decimal digits
        # (Arabic-Indic, Devanagari, full-width), superscripts, the Unicode minus, the decimal comma of another locale is a separator
        odd = str(rng.choice(list("٠١٢٣٤٥٦٧٨٩०१२३０１２３²³¹⁰−＋．٫π∞½")))
        if kind != "bits":
            pos2 = int(rng.integers(0, len(text) + 1))
            ctx.raises("str2array.invalid_char", ValueError, U.str2array, text[:pos2] + odd + text[pos2:])
            ctx.raises("str2array.invalid_char", ValueError, U.str2array, odd + " " + text)
        for dt in (None, int, float, complex):
            ctx.raises("str2array.invalid_char", ValueError, U.str2array, "٣ ١٢" if rng.integers(2) else "１２ ３", **({} if dt is None else {"dtype": dt}))
    ctx.case(("str2array", kind, shape, sep, rsep, dec, unit), sample={"text": text, "parsed": want} if i < 8 else None)
    ctx.bin("str2array.kind", kind + ("2d" if two_d else "1d"))


PREFIX = {"f": -15, "p": -12, "n": -9, "u": -6, "μ": -6, "µ": -6, "m": -3, "": 0, "k": 3, "M": 6, "G": 9, "T": 12}


def w_si(ctx, rng, i):
    unit = str(rng.choice(["Hz", "s", "m", "W", "V", "b/s"]))
    k = int(rng.choice([0, 1, 1, 2, 3, 6]))
    mode = i % 4
    if mode == 0:      # exactly on a decade boundary and one ulp either side
        e = int(rng.integers(-15, 15))
        base = float(f"1e{e}")
        x = [base, np.nextafter(base, np.inf), np.nextafter(base, 0) if e > -15 else base][int(rng.integers(3))]
        if rng.integers(2):    # ... and a few dozen ulps either side (log10 of such a value rounds to the integer: a prefix chosen from floor(log10 x) is wrong here)
            x = base
            for _ in range(int(rng.integers(1, 60))):
                x = np.nextafter(x, 0 if e > -15 and i % 8 < 4 else np.inf)
    elif mode == 1:    # near the boundary from below (rounding up of the mantissa)
        e = int(rng.integers(-14, 16))
        x = float(f"1e{e}") * (1 - 10 ** rng.uniform(-9, -2))
    else:
        x = float(10 ** rng.uniform(-15, 15))
    x = float(x)
    if x < 1e-15:
        raise core.Skip()
    if rng.integers(5) == 0:
        x = float(x) if rng.integers(2) else np.float64(x)
    ctx.describe(x=x, unit=unit, k=k)
    with core.quiet():
        s = U.si(x, unit, k)
    ok = isinstance(s, str)
    m = re.fullmatch(r"(-?\d+(?:\.\d+)?) ([fpnuμµmkMGT]?)" + re.escape(unit), s) if ok else None
    if not ctx.check("si.format", m is not None, f"si({x!r},{unit!r},{k}) = {s!r} is not '<mantissa> <prefix><unit>'"):
        ctx.case(("si", unit, k, math.floor(math.log10(x)), mode))
        return
    mant, pre = float(m.group(1)), m.group(2)
    p = PREFIX[pre]
    ndec = len(m.group(1).split(".")[1]) if "." in m.group(1) else 0
    ctx.check("si.format", ndec == k, f"si({x!r},k={k}) printed {ndec} decimals: {s!r}")
    scale = float(f"1e{p}")
    ctx.check("si.roundtrip", abs(mant * scale - x) <= (0.5 * 10.0 ** (-k) * scale) * (1 + 1e-9) + abs(x) * 1e-12,
              f"si({x!r},{unit!r},{k}) = {s!r}: mantissa*10^{p} = {mant * scale!r} does not give back x to the printed precision")
    true_m = x / scale
    # the decade boundaries are the doubles 1e-15 … 1e12 themselves (si(1e-6) is '1.0 us' although the double 1e-6 lies below 10^-6): no slack
    ctx.check("si.prefix", float(f"1e{p}") <= x and (x < float(f"1e{p + 3}") or p == 12),
              f"si({x!r}) = {s!r}: unrounded mantissa {true_m!r} outside [1,1000)")
    ctx.case(("si", unit, k, math.floor(math.log10(x)), mode), sample={"x": x, "unit": unit, "k": k, "out": s} if i < 6 else None)
    ctx.bin("si.decade", math.floor(math.log10(x) / 3) * 3)


def w_chain(ctx, rng, i):
    """Library blocks that call db/idb/idbm/Q internally: the attached value monitors see those calls."""
    import opticomlib.devices as dv
    import opticomlib.ook as ook
    import opticomlib.ppm as ppm
    from opticomlib.typing import optical_signal, gv
    with core.quiet():
        gv(sps=8, R=1e9)
        n = 64
        x = optical_signal(np.ones(n) * 0.03 + 0j)
        before = sum(c["checks"] for m, c in ctx.counters.items() if m.endswith(".value"))
        dv.MZM(x, float(rng.uniform(-5, 5)), bias=float(rng.uniform(-5, 5)), Vpi=5.0, loss_dB=float(rng.uniform(0, 10)), ER_dB=float(rng.uniform(5, 40)))
        dv.LASER(np.arange(n) * gv.dt, float(rng.uniform(-20, 20)))
        ook.theory_BER(float(rng.uniform(1, 10)), 1.0, float(rng.uniform(0.5, 2)))
        ppm.theory_BER(float(rng.uniform(1, 10)), 1.0, 1.0, 4, "hard")
        after = sum(c["checks"] for m, c in ctx.counters.items() if m.endswith(".value"))
    ctx.check("attach.reached", after > before, "value monitors saw no call made from inside devices/ook/ppm")
    ctx.case(("chain", i))


def FORM_TWINS():
    import opticomlib.utils as ut
    return [(ut, ["db", "dbm", "idb", "idbm", "Q", "gaus", "rcos", "dec2bin", "si", "str2array"])]


WORKLOADS = [
    Workload("db", w_db, 600, 60000),
    Workload("Q_gaus", w_q, 150, 6000),
    Workload("rcos", w_rcos, 300, 30000),
    Workload("dec2bin", w_dec2bin, 16, 16, exhaustive=True, budget=120),
    Workload("str2array", w_str2array, 1200, 120000),
    Workload("si", w_si, 3000, 300000),
    Workload("chain", w_chain, 10, 200),
    Workload("repo_tests", lambda ctx, rng, i: core.run_repo_tests(ctx), 1, 1, budget=1800, tiers=("thorough",)),
]


def classify(v):
    return None
