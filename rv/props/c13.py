"""C13 — analytic BER and receiver-noise formulas match closed forms and each other."""
import math

import numpy as np
from scipy.constants import k as kB, e as qe, h as h_planck, c as c_light
from scipy.integrate import quad
from scipy.special import log_ndtr, ndtr
from scipy.stats import norm

from .. import core
from ..run import Workload

RULE = ("mu in (0,20s], s0, s1 log-uniform over 4 decades, M in {2..256}, both decisions; receiver model with P_avg in [-50,0] dBm, ER in "
        "[3,inf] dB, amplified/unamplified with G in [0,40] dB, NF in [3,10] dB, BW_opt > BW_el, r in (0,1], R_L in [10,1e4], T in [0,400], "
        "NF_el in [0,10] dB. Oracles: scipy quadrature / dense minimisation of the error integrals and independently written receiver "
        "formulas. Non-trivial: every case; distinct by (function, M, decision, parameter bins).")
ASSUMPTIONS = ["hard-decision PPM expressions 1 - Q*(1-Q)^(M-1) are accepted down to a double-precision cancellation floor of 1e-13",
               "grid-minimised quantities must lie in [true minimum, max(g(r* +- pitch/2))] with g the error integral and r* its true minimiser",
               "soft-decision values are compared at rtol 1e-3 + atol 5e-7: the library integrates with scipy.quad at default tolerances (observed absolute error up to 4e-8 on values of 3e-4)",
               "threshold-in-[mu0,mu1] clause of optimum_threshold asserted for mu1-mu0 >= 4*max(s0,s1)",
               "receiver configurations whose OFF-level variance is exactly zero (T = 0, unamplified, ER = inf) are skipped: the error integral is undefined there",
               "unamplified receivers are described with G = 0 dB and a finite BW_opt (the model's formulas use both)"]
TOLERANCES = {"soft_rtol": 1e-3, "soft_atol": 5e-7, "grid_lower_rtol": 1e-8, "model_rtol": 1e-9}
MIN_CHECKS = {"ook.value": 300, "ppm.hard": 200, "ppm.soft": 200, "estimator": 200, "threshold": 200, "model.voltages": 200, "model.variances": 200, "utils.theory_ber": 200}
SHARDS = {"quick": 4}

U = O = P = T = D = None


def Qf(x):
    return norm.sf(x)


def setup(ctx):
    global U, O, P, T, D
    import opticomlib.utils as ut
    import opticomlib.ook as ook
    import opticomlib.ppm as ppm
    import opticomlib.typing as ty
    import opticomlib.devices as dv
    U, O, P, T, D = ut, ook, ppm, ty, dv


# ---- oracles -----------------------------------------------------------------------------
def ook_err(r, mu0, mu1, s0, s1):
    return 0.5 * (Qf((mu1 - r) / s1) + Qf((r - mu0) / s0))


def ppm_hard_ser(r, mu0, mu1, s0, s1, M):
    # 1 - Phi((mu1-r)/s1) * Phi((r-mu0)/s0)^(M-1), computed without cancellation
    return -np.expm1(log_ndtr((mu1 - r) / s1) + (M - 1) * log_ndtr((r - mu0) / s0))


def true_min(g, lo, hi, n=200001):
    r = np.linspace(lo, hi, n)
    v = g(r)
    k = int(np.argmin(v))
    a, b = r[max(k - 1, 0)], r[min(k + 1, n - 1)]
    rr = np.linspace(a, b, 2001)
    vv = g(rr)
    kk = int(np.argmin(vv))
    return float(rr[kk]), float(vv[kk])


def grid_bounds(g, lo, hi, npts):
    """[lower, upper] admissible values for min over an npts-point grid on [lo,hi] of a unimodal error curve g."""
    r_star, g_star = true_min(g, lo, hi)
    pitch = (hi - lo) / (npts - 1)
    a, b = max(lo, r_star - pitch / 2), min(hi, r_star + pitch / 2)
    return g_star, float(max(g(np.array([a]))[0], g(np.array([b]))[0])), r_star, pitch


def ppm_soft_ber(d, s0, s1, M):
    f = lambda x: norm.pdf(x) * (-np.expm1((M - 1) * log_ndtr((d + s1 * x) / s0)))
    pts = sorted(set(float(np.clip(p, -39, 39)) for p in (-d / math.hypot(s0, s1), 0.0, -d / s1)))
    v, _ = quad(f, -40, 40, points=pts, limit=400, epsabs=0, epsrel=1e-11)
    return v * 0.5 * M / (M - 1)


def rand_sigmas(rng):
    s0 = float(10 ** rng.uniform(-3, 1))
    s1 = s0 * float(10 ** rng.uniform(-2, 2)) if rng.integers(3) else s0
    return s0, s1


def in_bounds(val, lo, hi, atol=0.0):
    """atol: floating-point floor of expressions of the form 1 - (product close to one)."""
    return lo * (1 - 1e-8) - 1e-300 - atol <= val <= hi * (1 + 1e-8) + 1e-300 + atol


CANCEL = 1e-13
SOFT_RTOL, SOFT_ATOL = 1e-3, 5e-7   # accuracy of the library's own default-tolerance quadrature (observed up to 4e-8 absolute)      # 1 - Q(.)*(1-Q(.))^(M-1) in double precision, M <= 256


# ---- workloads ---------------------------------------------------------------------------
def w_ook(ctx, rng, i):
    s0, s1 = rand_sigmas(rng)
    s = max(s0, s1)
    mu = float(rng.uniform(0.01, 20)) * s
    ctx.describe(mu=mu, s0=s0, s1=s1)
    with core.quiet():
        out = float(O.theory_BER(mu, s0, s1))
    lo, hi, r_star, pitch = grid_bounds(lambda r: ook_err(r, 0.0, mu, s0, s1), 0.0, mu, 1000)
    ctx.check("ook.value", in_bounds(out, lo, hi), f"ook.theory_BER({mu:.6g},{s0:.6g},{s1:.6g}) = {out!r} outside [true minimum {lo!r}, grid bound {hi!r}]")
    if s0 == s1:
        ctx.check("ook.equal_sigma", abs(out - Qf(mu / (2 * s0))) <= 1e-9 * Qf(mu / (2 * s0)) + 1e-300 or in_bounds(out, Qf(mu / (2 * s0)), hi),
                  f"ook.theory_BER(mu,s,s) = {out!r} != Q(mu/2s) = {Qf(mu / (2 * s0))!r}")
    ctx.check("bounded", 0 <= out <= 0.5 * (1 + 1e-12), f"OOK BER {out} outside [0, 1/2]")
    # element-wise vectorisation and monotonicity in mu
    mus = np.sort(rng.uniform(0.05, 20, 6)) * s
    mus = mus[np.concatenate([[True], np.diff(mus) > 0.4 * s])]
    with core.quiet():
        vec = np.asarray(O.theory_BER(mus, s0, s1), float)
        one = np.array([float(O.theory_BER(float(m), s0, s1)) for m in mus])
        vec2 = np.asarray(O.theory_BER(mus, np.full(mus.size, s0), np.full(mus.size, s1)), float)
    ctx.check("vectorise", vec.shape == mus.shape and np.array_equal(vec, one) and np.array_equal(vec2, one), "ook.theory_BER does not vectorise element-wise")
    with core.quiet():
        mx = np.concatenate([[20.0 * s], mus])
        onex = np.concatenate([[float(O.theory_BER(20.0 * s, s0, s1))], one])
        for perm in (np.arange(mx.size)[::-1], rng.permutation(mx.size), np.arange(mx.size)):
            arg = mx[perm] if rng.integers(3) else mx[perm].tolist()
            got = np.asarray(O.theory_BER(arg, s0, s1), float)
            ctx.check("vectorise", got.shape == mx.shape and np.array_equal(got, onex[perm]), f"ook.theory_BER on an array in the order {perm.tolist()} differs from the element-by-element values")
    ctx.check("monotone", np.all(np.diff(vec) <= 1e-3 * vec[:-1] + 1e-300), f"ook.theory_BER is not non-increasing in mu: {vec}")
    ctx.case(("ook", round(math.log10(s0)), round(math.log10(s1 / s0), 1), round(mu / s)), sample=dict(mu=mu, s0=s0, s1=s1, out=out, true_min=lo) if i < 3 else None)


PPM_WITNESSES = [(41.75669167739981, 0.5832767328265208, 9.877095003064996, 64), (268.91788132598094, 6.347531703339712, 64.3547940268455, 128)]      # thorough tier seed 6, ppm[2841]: quad over (-inf, inf) missed the step


def w_ppm(ctx, rng, i):
    s0, s1 = rand_sigmas(rng)
    s = max(s0, s1)
    M = int(2 ** rng.integers(1, 9))
    mu = float(rng.uniform(0.01, 20)) * s
    if i < len(PPM_WITNESSES):       # witnesses of repaired defects stay in the workload (a fixed entry suppresses nothing: the violation is reported if it returns)
        mu, s0, s1, M = PPM_WITNESSES[i]
    elif i % 16 == 9:                # s1 >> s0: the soft-decision integrand has a step of width s0/s1 far out in the Gaussian tail (fix 2f4ed56)
        s1 = s0 * float(rng.uniform(8, 40))
        M = int(2 ** rng.integers(4, 9))
        mu = float(rng.uniform(3.0, 5.5)) * s1
    ctx.describe(mu=mu, s0=s0, s1=s1, M=M)
    cap = M / (2 * (M - 1))
    with core.quiet():
        hard = float(P.theory_BER(mu, s0, s1, M, "hard"))
        soft = float(P.theory_BER(mu, s0, s1, M, "soft"))
        dflt = float(P.theory_BER(mu, s0, s1, M))
    lo, hi, r_star, pitch = grid_bounds(lambda r: ppm_hard_ser(r, 0.0, mu, s0, s1, M), 0.0, mu, 1000)
    ctx.check("ppm.hard", in_bounds(hard, lo * cap, hi * cap, CANCEL), f"ppm.theory_BER hard M={M} = {hard!r} outside [{lo * cap!r},{hi * cap!r}]")
    ref_soft = ppm_soft_ber(mu, s0, s1, M)
    ctx.check("ppm.soft", abs(soft - ref_soft) <= SOFT_RTOL * ref_soft + SOFT_ATOL, f"ppm.theory_BER soft M={M} = {soft!r}, independent integral {ref_soft!r}")
    ctx.check("ppm.soft", dflt == soft, "default decision is not 'soft'")
    if M == 2:
        qv = Qf(mu / math.hypot(s0, s1))
        ctx.check("ppm.soft_M2", abs(soft - qv) <= SOFT_RTOL * qv + SOFT_ATOL, f"soft M=2: {soft!r} != Q(mu/sqrt(s0^2+s1^2)) = {qv!r}")
    ctx.check("soft_le_hard", soft <= hard * (1 + SOFT_RTOL) + SOFT_ATOL, f"soft {soft!r} > hard {hard!r} (M={M})")
    ctx.check("bounded", -SOFT_ATOL <= soft <= cap * (1 + 1e-9) and 0 <= hard <= cap * (1 + 1e-9), f"PPM BER outside [0, M/(2(M-1))]: soft {soft}, hard {hard}")
    mus = np.sort(rng.uniform(0.05, 20, 5)) * s
    mus = mus[np.concatenate([[True], np.diff(mus) > 0.4 * s])]
    with core.quiet():
        for dec in ("hard", "soft"):
            vec = np.asarray(P.theory_BER(mus, s0, s1, M, dec), float)
            one = np.array([float(P.theory_BER(float(m), s0, s1, M, dec)) for m in mus])
            ctx.check("vectorise", vec.shape == mus.shape and np.allclose(vec, one, rtol=1e-12, atol=1e-15), f"ppm.theory_BER({dec}) does not vectorise element-wise")
            # element-wise means order-independent: descending and shuffled sweeps (the first element may be the most open eye),
            # list form, and the far end of the range (20 s)
            mx = np.concatenate([[20.0 * s], mus])
            onex = np.concatenate([[float(P.theory_BER(20.0 * s, s0, s1, M, dec))], one])
            for perm in (np.arange(mx.size), np.arange(mx.size)[::-1], rng.permutation(mx.size)):
                arg = mx[perm] if rng.integers(3) else mx[perm].tolist()
                got = np.asarray(P.theory_BER(arg, s0, s1, M, dec), float)
                ctx.check("vectorise", got.shape == mx.shape and np.allclose(got, onex[perm], rtol=1e-12, atol=1e-15),
                          f"ppm.theory_BER({dec}) on an array in the order {perm.tolist()} differs from the element-by-element values: {got} vs {onex[perm]}")
            ctx.check("monotone", np.all(np.diff(vec) <= 2e-3 * vec[:-1] + 2 * SOFT_ATOL), f"ppm.theory_BER({dec}) is not non-increasing in mu: {vec}")
        ctx.probe("ppm.M_not_power_of_two", P.theory_BER, mu, s0, s1, int(rng.choice([3, 5, 6, 12, 100])), "hard")
        ctx.probe("ppm.other_decision", P.theory_BER, mu, s0, s1, M, "medium")        # (probe: the statement has no rejection clause)
    ctx.case(("ppm", M, round(math.log10(s0)), round(math.log10(s1 / s0), 1), round(mu / s)), sample=dict(mu=mu, s0=s0, s1=s1, M=M, hard=hard, soft=soft) if i < 3 else None)
    ctx.bin("M", M)


def w_vectorise_large(ctx, rng, i):
    """element-wise also means: for arrays of any size and shape (hundreds of points, sizes that are not a multiple of any internal
    block, 2-D broadcasts): every element equals the scalar call, checked on the first, the last and a random sample of elements."""
    s0, s1 = rand_sigmas(rng)
    s = max(s0, s1)
    which = ["ook", "ppm_soft", "ppm_hard", "utils"][i % 4]
    shape = [(501,), (750,), (1024,), (3, 211), (1201,), (64, 17)][(i // 4) % 6]
    n = int(np.prod(shape))
    M = int(2 ** rng.integers(1, 9))
    ctx.describe(which=which, shape=shape, s0=s0, s1=s1, M=M)
    idx = sorted(set([0, 1, n // 2, n - 2, n - 1] + [int(v) for v in rng.integers(0, n, 6)]))
    with core.quiet():
        if which == "utils":
            Pw = rng.uniform(-45, -15, shape)
            kw = dict(modulation=["ook", "ppm"][int(rng.integers(2))], M=M, decision=["hard", "soft"][int(rng.integers(2))])
            vec = np.asarray(U.theory_BER(Pw, **kw), float)
            one = np.array([float(U.theory_BER(float(Pw.flat[j]), **kw)) for j in idx])
        else:
            mus = rng.uniform(0.05, 20, shape) * s
            if which == "ook":
                f = lambda m: O.theory_BER(m, s0, s1)
            else:
                dec = which.split("_")[1]
                f = lambda m: P.theory_BER(m, s0, s1, M, dec)
            vec = np.asarray(f(mus), float)
            one = np.array([float(f(float(mus.flat[j]))) for j in idx])
    ok = vec.shape == tuple(shape) and np.allclose(vec.flat[idx], one, rtol=1e-9, atol=1e-15)
    ctx.check("vectorise", ok, f"{which} theory_BER on an array of shape {shape}: elements {[j for j, (a, b) in zip(idx, zip(vec.flat[idx] if vec.shape == tuple(shape) else one * np.nan, one)) if not np.isclose(a, b, rtol=1e-9, atol=1e-15)]} differ from the scalar calls (result shape {vec.shape})")
    ctx.case(("veclarge", which, shape), sample=dict(which=which, shape=shape) if i < 2 else None)


def w_estimator(ctx, rng, i):
    s0, s1 = rand_sigmas(rng)
    s = max(s0, s1)
    M = int(2 ** rng.integers(1, 9))
    d = float(rng.uniform(0.5, 14)) * s
    mu0 = float(rng.normal(0, 5)) * s * float(rng.choice([0, 1, 10]))
    mu1 = mu0 + d
    shift = float(rng.normal(0, 20)) * s
    ctx.describe(mu0=mu0, mu1=mu1, s0=s0, s1=s1, M=M, shift=shift)
    ey = T.eye(mu0=mu0, mu1=mu1, s0=s0, s1=s1)
    # the shifted twin also carries everything else a measured eye holds (GET_EYE's own threshold, timing, samples): the estimators
    # "depend only on mu1-mu0, s0, s1 and M"
    extra = {}
    if i % 2:
        extra = dict(threshold=float(mu0 + shift + rng.uniform(0.05, 0.95) * d), t_opt=float(rng.uniform(-0.2, 0.2)), t_left=-0.5, t_right=0.5, i=int(rng.integers(0, 16)), sps=16,
                     y=rng.normal(0, 1, 8), t=np.linspace(-1, 1, 8), er=float(rng.uniform(1, 30)), eye_h=float(d * 0.7))
    ey2 = T.eye(mu0=mu0 + shift, mu1=mu1 + shift, s0=s0, s1=s1, **extra)
    with core.quiet():
        # OOK
        est = float(O.BER_analizer("estimator", eye_obj=ey))
        est2 = float(O.BER_analizer("estimator", eye_obj=ey2))
        th = float(O.THRESHOLD_EST(ey))
        thy = float(O.theory_BER(d, s0, s1))
    lo, hi, r_star, pitch = grid_bounds(lambda r: ook_err(r, mu0, mu1, s0, s1), mu0, mu1, 1000)
    ctx.check("estimator", in_bounds(est, lo, hi), f"ook estimator {est!r} outside [{lo!r},{hi!r}] of the error integral for mu1-mu0")
    ctx.check("estimator", abs(est - thy) <= 1e-6 * thy + 1e-300 and abs(est2 - est) <= 1e-6 * est + 1e-300, f"ook estimator {est!r} (shifted: {est2!r}) != theory_BER(mu1-mu0) = {thy!r}")
    ctx.check("threshold", mu0 <= th <= mu1 and abs(th - r_star) <= pitch * (1 + 1e-9) + 1e-9 * (abs(mu0) + abs(mu1)), f"ook.THRESHOLD_EST {th!r} not within one grid pitch of the optimum {r_star!r} in [{mu0},{mu1}]")
    if s0 == s1:
        ctx.check("threshold", abs(th - (mu0 + mu1) / 2) <= pitch, f"equal sigmas: threshold {th!r} is not the midpoint {(mu0 + mu1) / 2!r}")
    # PPM
    with core.quiet():
        eh = float(P.BER_analizer("estimator", eye_obj=ey, M=M, decision="hard"))
        eh2 = float(P.BER_analizer("estimator", eye_obj=ey2, M=M, decision="hard"))
        es = float(P.BER_analizer("estimator", eye_obj=ey, M=M, decision="soft"))
        es2 = float(P.BER_analizer("estimator", eye_obj=ey2, M=M))
        tp = float(P.THRESHOLD_EST(ey, M))
        th_h = float(P.theory_BER(d, s0, s1, M, "hard"))
        th_s = float(P.theory_BER(d, s0, s1, M, "soft"))
    cap = M / (2 * (M - 1))
    lo, hi, r_star, pitch = grid_bounds(lambda r: ppm_hard_ser(r, mu0, mu1, s0, s1, M), mu0, mu1, 1000)
    ctx.check("estimator", in_bounds(eh, lo * cap, hi * cap, CANCEL), f"ppm hard estimator {eh!r} outside [{lo * cap!r},{hi * cap!r}]")
    ctx.check("estimator", abs(eh - th_h) <= 1e-6 * th_h + CANCEL and abs(eh2 - eh) <= 1e-6 * eh + CANCEL, f"ppm hard estimator {eh!r} (shifted {eh2!r}) != theory {th_h!r}")
    ctx.check("estimator", abs(es - th_s) <= 2 * SOFT_RTOL * th_s + 2 * SOFT_ATOL and abs(es2 - es) <= 2 * SOFT_RTOL * es + 2 * SOFT_ATOL, f"ppm soft estimator {es!r} (shifted {es2!r}) != theory {th_s!r}")
    g_tp = float(ppm_hard_ser(np.array([tp]), mu0, mu1, s0, s1, M)[0])
    ctx.check("threshold", mu0 <= tp <= mu1 and g_tp <= hi * (1 + 1e-8) + CANCEL, f"ppm.THRESHOLD_EST(M={M}) = {tp!r}: symbol error there {g_tp!r} exceeds the grid bound {hi!r} (optimum at {r_star!r})")
    # position is only meaningful where the curve is curved beyond rounding: one pitch away from the optimum the error must differ by > 1e-9
    bump = float(ppm_hard_ser(np.array([min(mu1, max(mu0, r_star - 3 * pitch)), min(mu1, max(mu0, r_star + 3 * pitch))]), mu0, mu1, s0, s1, M).min()) - lo
    if lo > 1e-9 and bump > 1e-9 * lo:
        ctx.check("threshold", abs(tp - r_star) <= 3 * pitch * (1 + 1e-9) + 1e-9 * (abs(mu0) + abs(mu1)), f"ppm.THRESHOLD_EST(M={M}) {tp!r} not within three grid pitches of the optimum {r_star!r}")
    # closed-form optimum threshold solves (M-1) N(r;mu0,S0) = N(r;mu1,S1)
    S0, S1 = s0 ** 2, s1 ** 2
    for modulation, MM in (("ook", 2), ("ppm", M)):
        disc = d ** 2 + 2 * (S1 - S0) * math.log(s1 / s0 * (MM - 1)) if MM > 1 else -1
        if disc <= 0:
            continue          # the likelihood equation has no real solution: nothing is specified
        try:
            with core.quiet():
                ro = float(U.optimum_threshold(mu0, mu1, S0, S1, modulation, MM))
        except (ZeroDivisionError, FloatingPointError) as ex:
            ctx.check("opt_threshold", False, f"optimum_threshold raised {type(ex).__name__} (S0={S0!r}, S1={S1!r})", equal_variances=S0 == S1)
            continue
        lhs = math.log(MM - 1) - math.log(s0) - (ro - mu0) ** 2 / (2 * S0) if MM > 1 else 0
        rhs = -math.log(s1) - (ro - mu1) ** 2 / (2 * S1)
        ctx.check("opt_threshold", np.isfinite(ro) and abs(lhs - rhs) <= 1e-6 * (abs(lhs) + abs(rhs) + 1), f"optimum_threshold({modulation}, M={MM}) = {ro!r} does not solve (M-1)N(r;mu0,S0) = N(r;mu1,S1): log sides {lhs!r} vs {rhs!r}",
                  equal_variances=S0 == S1)
        if d >= 4 * s:
            ctx.check("opt_threshold", mu0 <= ro <= mu1, f"optimum_threshold {ro!r} outside [mu0,mu1] = [{mu0},{mu1}]", equal_variances=S0 == S1)
        if S0 == S1 and MM == 2:
            ctx.check("opt_threshold", abs(ro - (mu0 + mu1) / 2) <= 1e-9 * (abs(mu0) + abs(mu1) + d), "equal sigmas (OOK): optimum_threshold is not the midpoint", equal_variances=True)
    ctx.case(("est", M, round(math.log10(s0)), round(math.log10(s1 / s0), 1), round(d / s), mu0 == 0), sample=dict(mu0=mu0, mu1=mu1, s0=s0, s1=s1, M=M) if i < 3 else None)


def rand_receiver(rng):
    amplify = bool(rng.integers(2))
    BW_el = float(10 ** rng.uniform(8.5, 10.5))
    return dict(P_avg=float(rng.uniform(-50, 0)), ER=float(rng.uniform(3, 40)) if rng.integers(4) else np.inf, amplify=amplify,
                wavelength=float(rng.choice([1550e-9, 1310e-9, 1565e-9])), G=(float(rng.uniform(0, 40)) if rng.integers(8) else float(rng.choice([0.0, 40.0]))) if amplify else 0.0,
                NF=float(rng.uniform(3, 10)) if rng.integers(8) else float(rng.choice([3.0, 10.0])),
                BW_opt=BW_el * float(rng.uniform(1.05, 30)), r=float(rng.uniform(0.05, 1)), BW_el=BW_el, R_L=float(10 ** rng.uniform(1, 4)), T=float(rng.uniform(0, 400)) if rng.integers(10) else 0.0,
                NF_el=float(rng.uniform(0, 10)) if rng.integers(2) else 0.0)


def model(p, M):
    """independently written receiver model: levels [OFF, ON] in V and variances in V^2."""
    er = 10 ** (p["ER"] / 10) if np.isfinite(p["ER"]) else np.inf
    pav = 10 ** (p["P_avg"] / 10) * 1e-3
    g = 10 ** (p["G"] / 10)
    p_on = pav * M / (1 + (M - 1) / er)
    p_off = p_on / er
    pase = 10 ** (p["NF"] / 10) * h_planck * (c_light / p["wavelength"]) * (g - 1) * p["BW_opt"] if p["amplify"] else 0.0
    mu_ase = p["r"] * pase * p["R_L"]
    mu = p["r"] * g * np.array([p_off, p_on]) * p["R_L"] + mu_ase
    l = p["BW_el"] / p["BW_opt"]
    th = 4 * kB * p["T"] * p["BW_el"] * p["R_L"] * 10 ** (p["NF_el"] / 10)
    sh = 2 * qe * mu * p["BW_el"] * p["R_L"]
    sa = 2 * mu_ase * (mu - mu_ase) * l
    aa = mu_ase ** 2 * (1 - l / 2) * l
    return mu, mu_ase, pase, th + sh + sa + aa, dict(thermal=th, shot=sh, sig_ase=sa, ase_ase=aa)


def w_model(ctx, rng, i):
    p = rand_receiver(rng)
    modulation = "ook" if i % 2 == 0 else "ppm"
    M = 2 if modulation == "ook" else int(2 ** rng.integers(1, 9))
    mu_ref, mu_ase_ref, pase_ref, S_ref, terms = model(p, M)
    ctx.describe(modulation=modulation, M=M, **p)
    with core.quiet():
        pa = float(U.p_ase(p["amplify"], p["wavelength"], p["G"], p["NF"], p["BW_opt"]))
        mu, mu_ase = U.average_voltages(p["P_avg"], modulation, M, p["ER"], p["amplify"], p["wavelength"], p["G"], p["NF"], p["BW_opt"], p["r"], p["R_L"])
        S = U.noise_variances(p["P_avg"], modulation, M, p["ER"], p["amplify"], p["wavelength"], p["G"], p["NF"], p["BW_opt"], p["r"], p["BW_el"], p["R_L"], p["T"], p["NF_el"])
    ctx.check("model.p_ase", abs(pa - pase_ref) <= 1e-9 * pase_ref + 1e-300, f"p_ase = {pa!r}, NF*h*f0*(G-1)*BW_opt = {pase_ref!r}")
    ctx.check("model.voltages", np.allclose(mu, mu_ref, rtol=1e-9, atol=0) and abs(float(mu_ase) - mu_ase_ref) <= 1e-9 * mu_ase_ref + 1e-300, f"average_voltages = {mu}, {mu_ase}; model {mu_ref}, {mu_ase_ref}")
    # the mean optical power implied by the levels is P_avg and their ratio is ER
    g = 10 ** (p["G"] / 10)
    pw = (np.asarray(mu, float) - float(mu_ase)) / (p["r"] * g * p["R_L"])
    ctx.check("model.voltages", abs((pw[1] + (M - 1) * pw[0]) / M - 10 ** (p["P_avg"] / 10 - 3)) <= 1e-9 * 10 ** (p["P_avg"] / 10 - 3), "ON/OFF levels do not average to P_avg")
    bad = ~np.isclose(np.asarray(S, float), S_ref, rtol=1e-9, atol=0)
    ctx.check("model.variances", not bad.any(), f"noise_variances = {np.asarray(S)}; thermal 4kTB R_L Fn + shot 2e mu B R_L + sig-ASE + ASE-ASE = {S_ref} (terms {terms})", NF_el=p["NF_el"], R_L=p["R_L"])
    if not p["amplify"]:
        with core.quiet():
            ctx.check("model.p_ase", U.p_ase(False) == 0, "p_ase(amplify=False) != 0")
    else:
        with core.quiet():
            ctx.probe("p_ase.missing_gain", U.p_ase, True, 1550e-9, None, 5, 1e11)
    ctx.case(("model", modulation, M, p["amplify"], round(p["P_avg"] / 10), round(math.log10(p["R_L"])), p["NF_el"] > 0, np.isfinite(p["ER"])), sample=dict(modulation=modulation, M=M, **p) if i < 3 else None)
    ctx.bin("amplify", p["amplify"])


def w_utils_ber(ctx, rng, i):
    p = rand_receiver(rng)
    # choose the power so that the BER is measurable in double precision
    kind = i % 3
    modulation = "ook" if kind == 0 else "ppm"
    M = 2 if modulation == "ook" else int(2 ** rng.integers(1, 7))
    decision = None if kind == 0 else ("hard" if kind == 1 else "soft")
    f0 = c_light / p["wavelength"]
    # scan P_avg for a Q-factor between 1 and 7
    for _ in range(40):
        mu_ref, _, _, S_ref, _ = model(p, M)
        if not (S_ref.max() > 0):
            raise core.Skip()
        q = (mu_ref[1] - mu_ref[0]) / (math.sqrt(S_ref[0]) + math.sqrt(S_ref[1]))
        if 0.7 <= q <= 7:
            break
        p["P_avg"] += float(np.clip(-8 * math.log10(q / 3), -6, 6))
    if not (-70 <= p["P_avg"] <= 10):
        raise core.Skip()
    mu_ref, _, _, S_ref, _ = model(p, M)
    if not (S_ref.min() > 0):
        raise core.Skip()            # T = 0 with an unamplified, infinitely extinguished OFF level: zero variance, the error integral is not defined
    s0, s1 = math.sqrt(S_ref[0]), math.sqrt(S_ref[1])
    ctx.describe(modulation=modulation, M=M, decision=decision, **p)
    args = dict(M=M, decision=decision, ER=p["ER"], amplify=p["amplify"], f0=f0, G=p["G"], NF=p["NF"], BW_opt=p["BW_opt"], r=p["r"], BW_el=p["BW_el"], R_L=p["R_L"], T=p["T"], NF_el=p["NF_el"])
    with core.quiet():
        out = float(U.theory_BER(p["P_avg"], modulation, **args))
    cap = M / (2 * (M - 1))
    if modulation == "ook":
        lo, hi, _, _ = grid_bounds(lambda r: ook_err(r, mu_ref[0], mu_ref[1], s0, s1), mu_ref[0], mu_ref[1], 5000)
        ok = in_bounds(out, lo, hi)
    elif decision == "hard":
        lo, hi, _, _ = grid_bounds(lambda r: ppm_hard_ser(r, mu_ref[0], mu_ref[1], s0, s1, M), mu_ref[0], mu_ref[1], 5000)
        lo, hi = lo * cap, hi * cap
        ok = in_bounds(out, lo, hi, CANCEL)
    else:
        lo = hi = ppm_soft_ber(mu_ref[1] - mu_ref[0], s0, s1, M)
        ok = abs(out - lo) <= SOFT_RTOL * lo + SOFT_ATOL
    ctx.check("utils.theory_ber", ok, f"utils.theory_BER({modulation},{decision},M={M}) = {out!r}; error integral on the model's levels/variances in [{lo!r},{hi!r}]", R_L=p["R_L"], NF_el=p["NF_el"], amplify=p["amplify"])
    # consistency with the library's own level/variance helpers
    with core.quiet():
        mu, _ = U.average_voltages(p["P_avg"], modulation, M, p["ER"], p["amplify"], p["wavelength"], p["G"], p["NF"], p["BW_opt"], p["r"], p["R_L"])
        S = np.asarray(U.noise_variances(p["P_avg"], modulation, M, p["ER"], p["amplify"], p["wavelength"], p["G"], p["NF"], p["BW_opt"], p["r"], p["BW_el"], p["R_L"], p["T"], p["NF_el"]), float)
        if modulation == "ook":
            lo2, hi2, _, _ = grid_bounds(lambda r: ook_err(r, mu[0], mu[1], math.sqrt(S[0]), math.sqrt(S[1])), mu[0], mu[1], 5000)
            ctx.check("utils.consistent", in_bounds(out, lo2, hi2), f"theory_BER = {out!r} disagrees with the error integral on average_voltages/noise_variances [{lo2!r},{hi2!r}]", R_L=p["R_L"], NF_el=p["NF_el"])
        # monotone in received power
        pw = p["P_avg"] + np.array([-3.0, -1.0, 0.0, 1.0, 3.0])
        vals = np.asarray(U.theory_BER(pw, modulation, **args), float)
        ctx.check("utils.monotone", vals.shape == pw.shape and np.all(np.diff(vals) <= 2e-3 * vals[:-1] + 2 * SOFT_ATOL), f"theory_BER is not decreasing with received power: {vals}")
        # explicit normalised threshold
        if decision != "soft":
            t = float(rng.uniform(0.2, 0.8))
            vt = float(U.theory_BER(p["P_avg"], modulation, threshold=t, **args))
            rr = t * mu_ref[1] + (1 - t) * mu_ref[0]
            want = ook_err(rr, mu_ref[0], mu_ref[1], s0, s1) if modulation == "ook" else float(ppm_hard_ser(np.array([rr]), mu_ref[0], mu_ref[1], s0, s1, M)[0]) * cap
            ctx.check("utils.theory_ber", abs(vt - want) <= 1e-8 * want + CANCEL, f"theory_BER(threshold={t:.3f}) = {vt!r}, error integral at that threshold {want!r}", R_L=p["R_L"], NF_el=p["NF_el"])
            ctx.check("utils.theory_ber", vt >= lo * (1 - 1e-8) - CANCEL, "a fixed threshold beats the true optimum of the error integral")
    ctx.case(("uber", modulation, decision, M, p["amplify"], round(math.log10(p["R_L"])), p["NF_el"] > 0), sample=dict(modulation=modulation, M=M, decision=decision, out=out, **p) if i < 3 else None)
    ctx.bin("utils.kind", f"{modulation}/{decision}")


def w_devices_agree(ctx, rng, i):
    """PD thermal+shot variance and EDFA ASE power (measured on long records) equal the receiver model's terms."""
    fs = float(rng.choice([1.6e10, 8e10]))
    with core.quiet():
        T.gv(sps=16, fs=fs, wavelength=1550e-9)
    N = 2 ** 17
    np.random.seed(int(rng.integers(2 ** 31)))
    r_, R_L, Tk = float(rng.uniform(0.3, 1)), float(10 ** rng.uniform(1.5, 3.5)), float(rng.uniform(200, 400))
    Pw = float(10 ** rng.uniform(-5, -3))
    BW = float(rng.uniform(0.1, 0.4)) * fs
    ctx.describe(fs=fs, r=r_, R_L=R_L, T=Tk, P=Pw, BW=BW)
    with core.quiet():
        y = D.PD(T.optical_signal(np.sqrt(Pw) * np.ones(N, complex)), BW, r_, Tk, R_L, "thermal-shot", 0.0)
        imp = np.zeros(4096)
        imp[2048] = 1
        g = D.LPF(imp, BW).signal
        neb = float(np.sum(g ** 2))
        B_eq = fs / 2 * neb                      # bandwidth of an ideal filter passing the same noise power
        S = np.asarray(U.noise_variances(10 * math.log10(Pw * 1e3), "ook", 2, np.inf, False, 1550e-9, 0.0, 5.0, 10 * B_eq, r_, B_eq, R_L, Tk, 0.0), float)
        # CW: every slot is at power Pw, i.e. the 'ON' level of an OOK signal of average power Pw/2 -> use the model directly
        want = 4 * kB * Tk * B_eq * R_L + 2 * qe * (r_ * Pw * R_L) * B_eq * R_L
        ac = np.correlate(g, g, "full")
        rho2 = float(np.sum((ac / ac.max()) ** 2))
        s2 = float(np.var(y.noise[N // 64:-N // 64]))
        ctx.check("devices.pd", abs(s2 - want) <= 6 * want * math.sqrt(2 * rho2 / (N * 31 / 32)), f"PD thermal+shot variance {s2:.6g} V^2 vs receiver model 4kTB R_L + 2e mu B R_L = {want:.6g} V^2 (ratio {s2 / want:.4f})")
        mu_on = U.average_voltages(10 * math.log10(Pw * 1e3 / 2), "ook", 2, np.inf, False, 1550e-9, 0.0, 5.0, 10 * B_eq, r_, R_L)[0][1]
        S2 = np.asarray(U.noise_variances(10 * math.log10(Pw * 1e3 / 2), "ook", 2, np.inf, False, 1550e-9, 0.0, 5.0, 10 * B_eq, r_, B_eq, R_L, Tk, 0.0), float)
        ctx.check("devices.pd", abs(float(mu_on) - r_ * Pw * R_L) <= 1e-9 * r_ * Pw * R_L and abs(S2[1] - want) <= 1e-9 * want, f"noise_variances ON-level {S2[1]!r} != PD's documented thermal+shot {want!r}", R_L=R_L)
        G, NF = float(rng.uniform(10, 35)), float(rng.uniform(3, 8))
        a = D.EDFA(T.optical_signal(np.zeros(N, complex)), G, NF).noise
        pa = float(np.sum(np.mean(np.abs(a) ** 2, axis=-1)))
        wa = float(U.p_ase(True, 1550e-9, G, NF, fs))
        ctx.check("devices.edfa", abs(pa - wa) <= 6 * wa * math.sqrt(1 / (2 * N)), f"EDFA ASE power {pa:.6g} W vs p_ase(BW_opt=fs) = {wa:.6g} W")
        # the receiver model's ASE power behind an optical filter of bandwidth B does not know about simulation grids: the EDFA device
        # with BW=B must deliver the same power on two grids within one process, and that power must be p_ase(BW_opt=B) times a
        # filter-shape factor of order one
        B = 2e9
        pw = []
        for fs2 in ((1.6e11, 4e10) if i % 2 else (4e10, 1.6e11)):
            T.gv(sps=8, fs=fs2, wavelength=1550e-9)
            yb = D.EDFA(T.optical_signal(np.zeros(2 ** 16, complex)), G, NF, B)
            pw.append(float(np.sum(np.mean(np.abs(yb.noise[:, 2000:-2000]) ** 2, axis=-1))))
        tolb = 6 * math.sqrt(1.6e11 / (B * 2 ** 16)) + 0.02
        model_b = float(U.p_ase(True, 1550e-9, G, NF, B))
        ctx.check("devices.edfa", abs(pw[1] / pw[0] - 1) <= tolb and 0.4 <= pw[0] / model_b <= 1.6, f"filtered EDFA ASE power on two grids {pw} W vs p_ase(BW_opt={B:.3g}) = {model_b:.6g} W")
    ctx.case(("dev", fs, round(math.log10(R_L), 1), i), sample=dict(fs=fs, r=r_, R_L=R_L, T=Tk, P=Pw, measured_over_model=s2 / want) if i < 2 else None)


def FORM_TWINS():
    import opticomlib.ook as ok
    import opticomlib.ppm as pp
    import opticomlib.utils as ut
    return [(ok, ["theory_BER", "THRESHOLD_EST"]), (pp, ["theory_BER", "THRESHOLD_EST"]),
            (ut, ["theory_BER", "average_voltages", "noise_variances", "p_ase", "optimum_threshold"])]


WORKLOADS = [
    Workload("ook", w_ook, 500, 50000),
    Workload("ppm", w_ppm, 400, 40000),
    Workload("estimator", w_estimator, 400, 40000),
    Workload("model", w_model, 1500, 100000),
    Workload("utils_ber", w_utils_ber, 450, 40000),
    Workload("vectorise_large", w_vectorise_large, 24, 480, budget=300),
    Workload("devices_agree", w_devices_agree, 6, 60, budget=300),
]


def classify(v):
    return None
