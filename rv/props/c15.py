"""C15 — binary_sequence is a closed, immutable-by-operation algebra over {0,1}; signal comparisons yield valid sequences."""
import itertools

import icontract
import numpy as np

from .. import core
from ..run import Workload

RULE = ("every bit string of length 1..12 in every container form (exhaustive), all ordered pairs of strings of length <= 4, random "
        "programs over {+, reflected +, ~, slicing} of depth <= 6, rejected inputs table, comparisons of real/complex signals with "
        "scalar/array thresholds; non-trivial: length >= 2 or an operator applied; distinct by (form, bits) / program shape.")
ASSUMPTIONS = ["empty sequences (e.g. a[5:2]) are accepted as valid: the property fixes dtype/shape/values, not non-emptiness",
               "comparison clause is asserted only where signal, signal+noise and threshold are all real and >= 0"]
MIN_CHECKS = {"bs.invariant": 5000, "bs.ctor": 5000, "bs.laws": 500, "cmp.value": 100, "bs.rejects": 20}
ALL_EXHAUSTIVE = False

T = None
_ctx = None


def valid_data(d):
    return isinstance(d, np.ndarray) and d.ndim == 1 and d.dtype == np.uint8 and bool(np.all((d == 0) | (d == 1)))


def inv_binary_sequence(self):
    if _ctx is not None and not core.in_monitor():
        d = getattr(self, "data", None)
        _ctx.check("bs.invariant", valid_data(d), f"binary_sequence.data is not a 1-D uint8 0/1 array: {core.jsonable(d)}")
    return True


class ContractBroken(Exception):
    pass


def setup(ctx):
    global T, _ctx
    import opticomlib.typing as typing_
    T = typing_
    _ctx = ctx
    same = icontract.invariant(inv_binary_sequence, error=ContractBroken)(T.binary_sequence)
    assert same is T.binary_sequence

    # operator wrappers: operands unchanged, no aliasing, new object
    def wrap(name):
        def make(orig):
            def wrapper(self, *a, **k):
                if core.in_monitor():
                    return orig(self, *a, **k)
                others = [x for x in a if isinstance(x, (T.binary_sequence, np.ndarray))]
                arrs = [self.data] + [x.data if isinstance(x, T.binary_sequence) else x for x in others]
                before = [core.digest(x) for x in arrs]
                ids = [id(x) for x in arrs]
                try:
                    with core.readonly(*arrs):
                        r = orig(self, *a, **k)
                except ValueError as e:
                    if "read-only" in str(e):
                        ctx.check("bs.operands_unchanged", False, f"{name} wrote into an operand buffer: {e}")
                        raise
                    raise
                ctx.call("bs.op")
                with core.monitor_scope():
                    after = [core.digest(x) for x in [self.data] + [x.data if isinstance(x, T.binary_sequence) else x for x in others]]
                    ctx.check("bs.operands_unchanged", before == after and ids == [id(x) for x in [self.data] + [x.data if isinstance(x, T.binary_sequence) else x for x in others]],
                              f"{name} changed an operand")
                    if isinstance(r, T.binary_sequence):
                        ctx.check("bs.new_object", r is not self and all(r is not x for x in a), f"{name} returned one of its operands")
                        ctx.check("bs.no_alias", not any(np.shares_memory(r.data, x) for x in arrs), f"{name} result shares memory with an operand")
                return r
            return wrapper
        core.attach_method(T.binary_sequence, name, make)

    for n in ("__add__", "__radd__", "__invert__", "__getitem__"):
        wrap(n)


# ------------------------------------------------------------------------------------------
FORMS = ["str", "str_sp", "str_comma", "list", "tuple", "nd_int", "nd_bool", "nd_float", "nd_u8", "bs", "list_bool"]


def render(bits, form):
    b = [int(x) for x in bits]
    if form == "str":
        return "".join(map(str, b))
    if form == "str_sp":
        return " ".join(map(str, b))
    if form == "str_comma":
        return ",".join(map(str, b))
    if form == "list":
        return list(b)
    if form == "list_bool":
        return [bool(x) for x in b]
    if form == "tuple":
        return tuple(b)
    if form == "nd_int":
        return np.array(b, dtype=int)
    if form == "nd_bool":
        return np.array(b, dtype=bool)
    if form == "nd_float":
        return np.array(b, dtype=float)
    if form == "nd_u8":
        return np.array(b, dtype=np.uint8)
    if form == "bs":
        return T.binary_sequence(b)
    raise KeyError(form)


def w_ctor_exhaustive(ctx, rng, i):
    """index = length-1; every bit string of that length in every container form."""
    L = i + 1
    ctx.describe(length=L)
    n = 0
    for bits in itertools.product((0, 1), repeat=L):
        want = np.array(bits, dtype=np.uint8)
        for form in FORMS:
            if form == "bs":   # not a constructor form named by the property (only an operand form of +)
                continue
            src = render(bits, form)
            keep = src.copy() if isinstance(src, np.ndarray) else None
            s = T.binary_sequence(src)
            ok = valid_data(s.data) and np.array_equal(s.data, want) and len(s) == L and s.len() == L
            if isinstance(src, np.ndarray):
                ok = ok and not np.shares_memory(s.data, src) and np.array_equal(src, keep)
            if not ok:
                ctx.check("bs.ctor", False, f"binary_sequence({src!r}) -> {core.jsonable(getattr(s, 'data', None))}")
            else:
                ctx.counters["bs.ctor"]["checks"] += 1
            n += 1
        s = T.binary_sequence(list(bits))
        ones, zeros = int(s.ones()), int(s.zeros())
        inv = ~s
        ok = ones == sum(bits) and ones + zeros == L and int(inv.ones()) == zeros and np.array_equal((~inv).data, want) and np.array_equal(inv.data, 1 - want) and (~inv == s) is True
        if not ok:
            ctx.check("bs.laws", False, f"ones/zeros/invert laws fail for {bits}")
        else:
            ctx.counters["bs.laws"]["checks"] += 1
        ctx.sigs.add(("b", bits).__repr__()) if L >= 2 else None
    ctx.evaluations += n
    if L == 1:
        for sc in (0, 1, True, False, np.uint8(1), np.int64(0), 1.0, 0.0, np.bool_(True)):
            s = T.binary_sequence(sc)
            ctx.check("bs.ctor", valid_data(s.data) and s.data.tolist() == [int(sc)], f"scalar {sc!r} -> {core.jsonable(s.data)}")
    ctx.case(("ctor", L), sample={"length": L, "strings": 2 ** L, "forms": FORMS})


REJECTS = [2, -1, 0.5, "012", "2", "0a1", "1;0", "10;01", [[0, 1], [1, 0]], np.zeros((2, 2)), np.ones((1, 3)), None, [0, 1, 2], (0, -1),
           np.array([0, 1, np.nan]), [0.5, 1], "0.5 1", np.array([0, 1, 3], dtype=np.uint8), [None, 1], np.array([object(), 1], dtype=object), "1 0 x", "01-1", 1 + 1j, [1, 7],
           # elements that are "almost" 0 or 1, or that satisfy an arithmetic identity of {0,1} without being 0 or 1
           [0, 1e-20], [1, -1e-300], np.array([5e-324, 1.0]), np.array([1e-9, 0], dtype=np.float32), np.array([1e-5, 1], dtype=np.float16), [1 - 1e-16, 0], [1 + 2.3e-16, 1],
           [0.5 + 0.5j, 0], np.array([0.5 - 0.5j]), [1j, 1], [-0.0 + 1e-30j, 1], np.array([np.inf, 0]), [True, 2], np.array([255, 1], dtype=np.uint8), np.array([256, 1]), np.array([-256, 0]),
           np.array([2 ** 32, 1]), np.array([2 ** 32 + 1, 0]), "٠١", "1e0 0", [1.0000001, 0],
           # more than one dimension, even if it holds a single element
           [[1]], ((0,),), [[[True]]], np.ones((1, 1)), np.zeros((1, 1, 1), dtype=np.uint8), np.array([[1]], dtype=bool), [[0], [1]], [[1, 0]]]


def w_rejects(ctx, rng, i):
    bad = REJECTS[i]
    ctx.describe(bad=bad)
    with core.quiet():
        ctx.raises("bs.rejects", (ValueError, TypeError), T.binary_sequence, bad)
        a = T.binary_sequence("0110")
        if isinstance(bad, (str, list, tuple, np.ndarray)):
            ctx.raises("bs.rejects_concat", (ValueError, TypeError), lambda: a + bad)
            if not isinstance(bad, np.ndarray):
                ctx.raises("bs.rejects_concat", (ValueError, TypeError), lambda: bad + a)
        else:
            ctx.raises("bs.rejects_concat", (ValueError, TypeError), lambda: a + bad)
        ctx.check("bs.rejects", a.data.tolist() == [0, 1, 1, 0], "failed operation modified the operand")
    ctx.case(("reject", i), sample={"rejected": bad} if i < 6 else None)


def w_pairs_small(ctx, rng, i):
    """all ordered pairs of bit strings of length 1..4, right operand in container form i % len(FORMS)."""
    strings = [b for L in range(1, 5) for b in itertools.product((0, 1), repeat=L)]
    form = FORMS[i % len(FORMS)]
    ctx.describe(form=form)
    for a_bits in strings:
        a = T.binary_sequence(list(a_bits))
        for b_bits in strings:
            other = render(b_bits, form)
            r = a + other
            ok = valid_data(r.data) and r.data.tolist() == list(a_bits) + list(b_bits) and len(r) == len(a_bits) + len(b_bits) and (r[:len(a)] == a) is True
            if not form.startswith("nd"):
                r2 = other + a
                ok = ok and isinstance(r2, T.binary_sequence) and r2.data.tolist() == list(b_bits) + list(a_bits)
            if not ok:
                ctx.check("bs.laws", False, f"concatenation {a_bits} + {form}:{b_bits} -> {core.jsonable(r.data)}")
            else:
                ctx.counters["bs.laws"]["checks"] += 1
            ctx.evaluations += 1
    ctx.case(("pairs", form), sample={"form": form, "pairs": len(strings) ** 2})
    for a_bits in strings:
        ctx.sigs.add(repr(("pair", form, a_bits)))


def rand_bits(rng, n):
    return rng.integers(0, 2, n).astype(int).tolist()


def w_programs(ctx, rng, i):
    """random expression over {+, reflected +, ~, slicing}; a python-list model runs alongside."""
    depth = int(rng.integers(1, 7))
    L = int(rng.choice([1, 2, 3, 5, 8, 13, 64, 1000, 4099, 20000]))
    model = rand_bits(rng, L)
    x = T.binary_sequence(list(model))
    prog = []
    for _ in range(depth):
        op = str(rng.choice(["add", "radd", "inv", "slice", "index"]))
        if op in ("add", "radd"):
            form = str(rng.choice([f for f in FORMS if op == "add" or not f.startswith("nd")]))
            ob = rand_bits(rng, int(rng.integers(1, 9)))
            o = render(ob, form)
            if op == "add" and rng.integers(3) == 0:
                # augmented concatenation: the object bound to the other name is an operand and must stay as it was
                alias, before = x, x.data.copy()
                x += o
                model = model + ob
                ctx.check("bs.iadd_operand", x is not alias and np.array_equal(alias.data, before), "x += y modified the object that was the left operand (another name bound to it sees the change)")
            elif op == "add":
                x, model = x + o, model + ob
            else:
                x, model = o + x, ob + model
            prog.append((op, form, len(ob)))
        elif op == "inv":
            x, model = ~x, [1 - b for b in model]
            prog.append(("inv",))
        elif op == "slice":
            n = len(model)
            a, b = sorted(int(v) for v in rng.integers(-n - 1, n + 2, 2))
            st = int(rng.choice([1, 1, 2, 3, -1, -2]))
            sl = [slice(a, b), slice(None, b), slice(a, None), slice(None, None, st), slice(a, b, abs(st))][int(rng.integers(5))]
            x, model = x[sl], model[sl]              # empty results included: an empty sequence is a valid sequence (all laws hold with len 0)
            if not model:
                ctx.bin("prog.empty", "reached")
            prog.append(("slice", sl.start is None, sl.stop is None, sl.step))
        else:
            if not model:
                continue
            k = int(rng.integers(-len(model), len(model)))
            x, model = x[k], [model[k]]
            prog.append(("index", k < 0))
        ok = isinstance(x, T.binary_sequence) and valid_data(x.data) and x.data.tolist() == model and len(x) == len(model) and int(x.ones()) + int(x.zeros()) == len(model) and int(x.ones()) == sum(model)
        ctx.describe(program=prog, length=L)
        if not ctx.check("bs.program", ok, f"after {prog[-1]} real={core.jsonable(getattr(x, 'data', None))} model={model[:40]}"):
            break
    ctx.case(("prog", tuple(prog), L), nontrivial=len(prog) > 0, sample={"start_len": L, "program": prog} if i < 5 else None)
    ctx.bin("prog.depth", len(prog))


def w_compare(ctx, rng, i):
    n = core.long_or(rng, i, int(rng.choice([1, 2, 3, 7, 16, 101, 1024])))
    kind = ["nonneg_real", "nonneg_real_noise", "real_any", "complex"][i % 4]
    thr_form = ["scalar", "npscalar", "list", "array", "esignal", "len1", "int", "npint", "int_array", "tuple"][int(rng.integers(10))]
    scale = float(10 ** rng.uniform(-3, 2)) if i % 5 else float(10 ** rng.uniform(-12, -6))     # down to nA/pA-scale photocurrents
    if thr_form in ("int", "npint", "int_array"):          # integer thresholds (x > 0, x > 1 ... are the everyday forms): volt-scale signals
        scale = float(rng.choice([1.0, 3.0, 10.0]))
    noise = None
    if kind == "nonneg_real":
        sig = np.abs(rng.normal(0, 1, n)) * scale
    elif kind == "nonneg_real_noise":
        sig = (np.abs(rng.normal(0, 1, n)) + 0.5) * scale
        noise = rng.uniform(-0.5, 0.5, n) * scale   # total stays >= 0
    elif kind == "real_any":
        sig = rng.normal(0, 1, n) * scale
        noise = rng.normal(0, 0.3, n) * scale if rng.integers(2) else None
    else:
        sig = (rng.normal(0, 1, n) + 1j * rng.normal(0, 1, n)) * scale
        noise = (rng.normal(0, 1, n) + 1j * rng.normal(0, 1, n)) * scale * 0.2 if rng.integers(2) else None
    # sample dtypes other than float64 / complex128: what a frame grabber or a saved capture delivers (float32, int32, int16 counts with
    # float32 noise ...). The container unifies signal and noise to their common numpy result type; values must survive that.
    narrow = kind in ("nonneg_real", "nonneg_real_noise") and i % 7 not in (0, 3) and thr_form not in ("int", "npint", "int_array") and rng.integers(3) == 0
    if narrow:
        sdt, ndt = [(np.float32, np.float32), (np.int64, np.float32), (np.int32, np.float32), (np.float64, np.float32), (np.float32, np.float64), (np.int16, np.float16), (np.uint8, np.float64)][int(rng.integers(7))]
        if np.issubdtype(sdt, np.integer):
            scale = 1.0
            sig = np.round(np.abs(rng.normal(0, 1, n)) * 20 + 1)
            noise = rng.uniform(-0.9, 0.9, n) if noise is not None else None
        sig = sig.astype(sdt)
        noise = None if noise is None else noise.astype(ndt)
    x = T.electrical_signal(sig, noise)
    tot = sig.astype(complex if np.iscomplexobj(sig) else float) + (noise.astype(complex if np.iscomplexobj(noise) else float) if noise is not None else 0)
    tv = np.abs(rng.normal(0, 1, n)) * scale if thr_form in ("list", "array", "esignal", "tuple", "int_array") else np.array([abs(rng.normal(0.7, 0.5)) * scale])
    if i % 7 == 0 and n > 1:   # thresholds exactly on sample values (ties)
        tv = np.abs(tot).copy() if tv.size == n else np.array([float(np.abs(tot)[0])])
    elif i % 7 == 3:           # thresholds a few ppm / a few ulp away from sample values (near ties)
        eps = float(rng.choice([1e-6, 1e-9, 1e-12, 4e-16])) * float(rng.choice([1, -1]))
        tv = np.abs(tot) * (1 + eps) if tv.size == n else np.array([float(np.abs(tot)[n // 2]) * (1 + eps)])
    elif i % 7 == 5 and tv.size == 1:
        tv = np.array([0.0])   # compare with zero
    if thr_form in ("int", "npint", "int_array"):
        tv = np.round(tv)      # after the tie / near-tie adjustments: the oracle and the operand carry the same integers
    th = {"scalar": lambda: float(tv[0]), "npscalar": lambda: np.float64(tv[0]), "list": lambda: tv.tolist(), "array": lambda: tv, "esignal": lambda: T.electrical_signal(tv), "len1": lambda: [float(tv[0])],
          "int": lambda: int(tv[0]), "npint": lambda: np.int64(tv[0]), "int_array": lambda: tv.astype(int), "tuple": lambda: tuple(tv.tolist())}[thr_form]()
    ctx.describe(kind=kind, n=n, thr_form=thr_form, scale=scale)
    d0 = core.digest(x.signal, x.noise)
    with core.quiet(), core.readonly(x.signal, x.noise, tv):
        g = x > th
        l = x < th
    for name, r, op in (("gt", g, np.greater), ("lt", l, np.less)):
        ctx.check("cmp.valid", isinstance(r, T.binary_sequence) and valid_data(r.data) and len(r) == n, f"{name}: not a valid binary_sequence of length {n}: {core.jsonable(getattr(r, 'data', None))}")
        if kind.startswith("nonneg"):
            thv = tv if tv.size == n else tv[0]
            want = op(tot.real, thv).astype(np.uint8)
            # single-precision containers add signal and noise in float32: samples closer to the threshold than that rounding are not decided
            sure = np.abs(tot.real - thv) > 1e-5 * np.maximum(np.abs(tot.real), np.abs(thv)) if narrow else np.ones(n, bool)
            ctx.check("cmp.value", isinstance(r, T.binary_sequence) and r.data.shape == want.shape and np.array_equal(r.data[sure], want[sure]),
                      f"x {name} threshold differs from element-wise comparison of signal+noise (signal dtype {sig.dtype}, noise dtype {None if noise is None else noise.dtype})", got=getattr(r, "data", None), want=want)
    ctx.check("cmp.operands", core.digest(x.signal, x.noise) == d0, "comparison modified the signal")
    ctx.case(("cmp", kind, n, thr_form, round(np.log10(scale))), nontrivial=n >= 2, sample={"kind": kind, "n": n, "threshold_form": thr_form} if i < 4 else None)
    ctx.bin("cmp.kind", kind)


def w_counts(ctx, rng, i):
    """ones() / zeros() are the true counts for sequences of any length and density (a count kept in the uint8 of the data wraps at
    256): lengths around 255 / 256 / 65535 / 65536 and long ones, densities from empty to all ones, also after ~ and +."""
    n = int([255, 256, 257, 511, 1000, 5000, 65535, 65536, 70001, 300][i % 10])
    dens = float([1.0, 0.5, 0.0, 0.9, 0.999, 0.3][(i // 10) % 6])
    bits = (rng.random(n) < dens).astype(np.uint8)
    k = int(bits.sum())
    form = ["ndarray", "list", "str", "nd_bool"][int(rng.integers(4))]
    src = {"ndarray": lambda: bits.copy(), "list": lambda: bits.tolist(), "str": lambda: "".join(map(str, bits.tolist())), "nd_bool": lambda: bits.astype(bool)}[form]()
    ctx.describe(n=n, ones=k, form=form)
    with core.quiet():
        a = T.binary_sequence(src)
        b = T.binary_sequence(rng.integers(0, 2, int(rng.integers(1, 400))))
        kb = int(b.data.sum())
        ab = a + b
        got = dict(ones=int(a.ones()), zeros=int(a.zeros()), inv_ones=int((~a).ones()), inv_zeros=int((~a).zeros()), cat_ones=int(ab.ones()), cat_zeros=int(ab.zeros()))
    want = dict(ones=k, zeros=n - k, inv_ones=n - k, inv_zeros=k, cat_ones=k + kb, cat_zeros=n + len(b) - k - kb)
    ctx.check("bs.counts", got == want, f"ones()/zeros() of a sequence of {n} slots with {k} ones (and of ~a, a+b): {got}, true counts {want}")
    ctx.case(("counts", n, dens, form), sample=dict(n=n, ones=k) if i < 2 else None)


def w_library_use(ctx, rng, i):
    """binary sequences produced inside the library (PRBS, encoders, DSP comparisons) pass the same invariant."""
    import opticomlib.devices as dv
    import opticomlib.ppm as ppm
    with core.quiet():
        T.gv(sps=int(rng.choice([4, 8, 16])), R=1e9)
        bits = dv.PRBS(int(rng.choice([7, 9, 11])), len=int(rng.integers(8, 200)), seed=int(rng.integers(1, 100)))
        M = int(rng.choice([2, 4, 8]))
        enc = ppm.PPM_ENCODER(bits, M)
        x = dv.DAC(enc)
        s = dv.SAMPLER(x, T.gv.sps // 2) > 0.5
        dec = ppm.PPM_DECODER(ppm.HDD(s, M), M)
        ctx.check("bs.library", valid_data(bits.data) and valid_data(enc.data) and valid_data(s.data) and valid_data(dec.data), "library produced an invalid binary_sequence")
    ctx.case(("lib", M, len(bits)), sample=None)


WORKLOADS = [
    Workload("ctor_exhaustive", w_ctor_exhaustive, 12, 12, exhaustive=True, budget=300),
    Workload("rejects", w_rejects, len(REJECTS), len(REJECTS), exhaustive=True),
    Workload("pairs_small", w_pairs_small, len(FORMS), len(FORMS), exhaustive=True),
    Workload("programs", w_programs, 2000, 200000),
    Workload("compare", w_compare, 1500, 100000),
    Workload("library_use", w_library_use, 30, 1000),
    Workload("counts", w_counts, 60, 1200),
    Workload("repo_tests", lambda ctx, rng, i: core.run_repo_tests(ctx), 1, 1, budget=1800, tiers=("thorough",)),
]


def classify(v):
    return None
