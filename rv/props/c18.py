"""C18 — ADC is a true n-bit quantiser; shortest_int returns a shortest covering interval."""
import numpy as np

from .. import core
from ..run import Workload

RULE = ("real records of length 2..2^17 (emphasis >= 10^4) with Gaussian / uniform / sinusoidal / already-quantised amplitudes over 8 "
        "decades of scale, with and without a noise component, n in 1..12, both otype values; shortest_int on tie-rich data "
        "(few levels, plateaus) and percentages giving lag 0, 1, len-1. Non-trivial: >= 2 distinct sample values; "
        "distinct by (distribution, length bin, scale decade, n, otype) / (tie pattern, lag class).")
ASSUMPTIONS = ["the full-scale range is whatever ADC obtained from shortest_int (captured by a spy on devices.shortest_int)",
               "minimality of shortest_int is checked to 1e-12 of the data range, not to the library's absolute 1e-10",
               "constant records (zero full-scale range) are outside the quantifier"]
MIN_CHECKS = {"adc.post": 300, "si.post": 500}

D = U = T = None
_last_range = []


def brute_min(sorted_data, lag):
    d = sorted_data
    if d.dtype.kind in "iu":
        # exact for every integer dtype: the true width of a sorted pair lies in [0, 2^64), so the difference of the two's-complement
        # images modulo 2^64 IS the width (int8 data spanning more than 127, int64 timestamps, uint64 above 2^63 alike)
        u = d.astype(np.int64).view(np.uint64) if d.dtype.kind == "i" else d.astype(np.uint64)
        return int(np.min(u[lag:] - u[:u.size - lag]))
    return float(np.min(d[lag:] - d[:d.size - lag]))


def setup(ctx):
    global D, U, T
    import opticomlib.devices as dv
    import opticomlib.utils as ut
    import opticomlib.typing as ty
    D, U, T = dv, ut, ty

    def si_post(orig):
        def wrapper(data, percent=50):
            r = orig(data, percent)
            if core.in_monitor():
                return r
            with core.monitor_scope():
                ctx.call("si.post")
                exact_int = np.asarray(data).dtype.kind in "iu"
                d = np.sort(np.asarray(data)) if exact_int else np.sort(np.asarray(data, dtype=float))
                lag = int(d.size * percent / 100)
                rr = np.asarray(r).reshape(-1) if exact_int else np.asarray(r, dtype=float).reshape(-1)      # (2,) or (2,1): "two data values" either way
                if exact_int and rr.dtype.kind == "f" and rr.shape == (2,) and np.all(np.isfinite(rr)) and np.all(rr == np.round(rr)):
                    rr = np.array([int(v) for v in rr], dtype=object).astype(np.int64) if np.all(np.abs(rr) < 2.0 ** 63) else rr   # integer data returned as floats: compared as the integers they denote
                ok = rr.shape == (2,) and np.all(np.isfinite(rr))
                msg = f"shortest_int returned {core.jsonable(r)}"
                if ok and 0 <= lag < d.size:
                    lo, hi = rr
                    if exact_int and rr.dtype.kind in "iu":
                        lo, hi = rr.astype(d.dtype) if np.all(rr.astype(d.dtype) == rr) else rr      # compared in the data's own dtype (np.searchsorted of int8 data with an int64 key is still exact)
                    rng_ = max(float(d[-1]) - float(d[0]), np.finfo(float).tiny)
                    if not lo <= hi:
                        ok, msg = False, f"shortest_int returned lo={lo!r} > hi={hi!r}"
                    else:
                        # (lo, hi) must be order statistics exactly `lag` apart
                        i0, i1 = np.searchsorted(d, lo, "left"), np.searchsorted(d, lo, "right")
                        pair = i1 > i0 and bool(np.any(d[i0 + lag:i1 + lag][: d.size] == hi)) if i0 + lag < d.size else False
                        if not pair:
                            ok, msg = False, f"shortest_int({d.size} samples, {percent}%): ({lo!r},{hi!r}) are not two order statistics lag={lag} apart"
                        else:
                            best = brute_min(d, lag)
                            width = int(hi) - int(lo) if exact_int and rr.dtype.kind in "iu" else hi - lo       # python integers: no wrap-around
                            if (width > best) if isinstance(width, int) else (width - best > 1e-12 * rng_):
                                ok, msg = False, f"shortest_int({d.size} samples of {d.dtype}, {percent}%): returned ({lo!r}, {hi!r}) of width {width!r}, a pair lag={lag} apart is closer: {best!r}"
                    _last_range.append((float(lo), float(hi)))
                ctx.check("si.post", ok, msg, n=d.size, percent=percent, lag=lag)
            return r
        return wrapper

    core.attach(ut, "shortest_int", si_post)

    def adc_post(orig):
        def wrapper(input, fs=None, n=8, otype="v"):
            del _last_range[:]
            r = orig(input, fs, n, otype)
            if core.in_monitor() or fs is not None:
                return r
            with core.monitor_scope():
                ctx.call("adc.post")
                if isinstance(input, T.electrical_signal):
                    x = input.signal + (input.noise if input.noise is not None else 0)
                else:
                    x = np.asarray(input)
                x = np.real(x).astype(float)
                if _last_range:
                    vmin, vmax = _last_range[0]
                else:
                    # the spy saw no range estimate during this call: fall back to the definition itself (shortest interval
                    # holding 99.99% of the samples), usable when that interval is unique
                    ctx.not_observed("adc.spy")
                    d = np.sort(x)
                    lag = int(d.size * 99.99 / 100)
                    w = d[lag:] - d[:d.size - lag]
                    k = np.flatnonzero(w == w.min())
                    if k.size != 1:
                        return r
                    vmin, vmax = float(d[k[0]]), float(d[k[0] + lag])
                ok = isinstance(r, T.electrical_signal) and r.signal.shape == x.shape
                if not ctx.check("adc.post", ok, f"ADC output shape {getattr(getattr(r, 'signal', None), 'shape', None)} for input {x.shape}"):
                    return r
                y = np.real(r.signal).astype(float)
                levels = 2 ** n
                step = (vmax - vmin) / (levels - 1)
                tol = 1e-9 * max(abs(vmin), abs(vmax), vmax - vmin)
                if otype == "n":
                    codes = y
                    ctx.check("adc.codes", np.all(codes == np.round(codes)) and codes.min() >= 0 and codes.max() <= levels - 1,
                              f"ADC(n={n},'n') codes span [{codes.min()},{codes.max()}], not integers in [0,{levels - 1}]", n=n, size=x.size)
                    recon = codes * step + vmin
                else:
                    recon = y
                    ctx.check("adc.range", y.min() >= vmin - tol and y.max() <= vmax + tol,
                              f"ADC(n={n},'v') output spans [{y.min()!r},{y.max()!r}] outside the full-scale range [{vmin!r},{vmax!r}]", n=n, size=x.size)
                ctx.check("adc.distinct", np.unique(np.round(recon / max(step, 1e-300) * 1e6) / 1e6 if otype == "v" else y).size <= levels,
                          f"ADC(n={n}) output takes more than 2^{n} distinct values")
                inside = (x >= vmin) & (x <= vmax)
                ctx.check("adc.halfstep", np.all(np.abs(recon[inside] - x[inside]) <= step / 2 * (1 + 1e-9) + tol * 1e-3),
                          f"ADC(n={n}): an in-range sample moved by more than half a quantisation step ({np.max(np.abs(recon[inside] - x[inside])) if inside.any() else 0!r} > {step / 2!r})")
                lo_s, hi_s = x < vmin, x > vmax
                ctx.check("adc.saturate", np.all(np.abs(recon[lo_s] - vmin) <= tol) and np.all(np.abs(recon[hi_s] - vmax) <= tol),
                          f"ADC(n={n},{otype!r}): out-of-range samples do not sit on the end codes", below=int(lo_s.sum()), above=int(hi_s.sum()))
                ctx.bin("adc.out_of_range_samples", "some" if (lo_s.any() or hi_s.any()) else "none")
            return r
        return wrapper

    core.attach(dv, "ADC", adc_post)


# ------------------------------------------------------------------------------------------
def make_record(rng, dist, n, scale, offset):
    if dist == "gauss":
        x = rng.normal(0, 1, n)
    elif dist == "uniform":
        x = rng.uniform(-1, 1, n)
    elif dist == "sine":
        x = np.sin(2 * np.pi * rng.uniform(0.001, 0.4) * np.arange(n) + rng.uniform(0, 6)) + 0.01 * rng.normal(0, 1, n)
    elif dist == "quantised":
        lv = int(rng.integers(2, 40))
        x = np.round(rng.normal(0, 1, n) * lv / 4) / lv * 4
        if np.unique(x).size < 2:
            x[: n // 2] += 1
    elif dist == "two_level":
        x = (rng.random(n) < rng.uniform(0.2, 0.8)).astype(float) + rng.normal(0, 0.02, n)
    elif dist == "outliers":
        x = rng.normal(0, 1, n)
        k = max(1, n // 20000)
        x[rng.integers(0, n, k)] = rng.choice([-1, 1], k) * rng.uniform(8, 50, k)
    else:
        raise KeyError(dist)
    return x * scale + offset


DISTS = ["gauss", "uniform", "sine", "quantised", "two_level", "outliers"]


def w_adc(ctx, rng, i):
    dist = DISTS[i % len(DISTS)]
    n_samp = int(rng.choice([2, 3, 10, 100, 1000, 9999, 10000, 10001, 20000, 50000, 2 ** 17]) if ctx.tier == "thorough" or i % 3 else rng.choice([10000, 20000, 40000]))
    scale = float(10 ** rng.uniform(-6, 2))
    offset = float(rng.choice([0, 0, 1, -3]) * scale * rng.uniform(0, 5)) if i % 7 else float(rng.choice([1, -1]) * scale * 10 ** rng.uniform(2, 6))     # incl. a large pedestal (every 7th case: combines with every record length, the short ones included)
    nbits = int(rng.integers(1, 13))
    otype = "vn"[int(rng.integers(2))]
    x = make_record(rng, dist, n_samp, scale, offset)
    if i % 13 == 0:
        x = np.round(rng.normal(0, 40, n_samp)).astype(int)    # integer-dtype samples
    if np.unique(x).size < 2:
        raise core.Skip()
    form = int(rng.integers(5)) if x.dtype.kind == 'f' else 2 * int(rng.integers(2))
    ctx.describe(dist=dist, n_samp=n_samp, scale=scale, offset=offset, nbits=nbits, otype=otype, form=form)
    with core.quiet():
        if form == 0:
            inp = T.electrical_signal(x)
        elif form == 1:
            nz = rng.normal(0, 0.05 * scale, n_samp)
            inp = T.electrical_signal(x - nz, nz)
        elif form == 3:      # a real waveform carried in a complex container with zero imaginary part (what DAC and electrical_signal('...') hold)
            inp = T.electrical_signal(x.astype(complex))
        elif form == 4:
            inp = x.astype(complex)
        else:
            inp = x
        d0 = core.digest(x)
        r = D.ADC(inp, n=nbits, otype=otype)
        ctx.check("adc.input_unchanged", core.digest(x) == d0, "ADC modified its input")
    ctx.case(("adc", dist, int(np.log2(n_samp)), round(np.log10(scale)), nbits, otype, form), sample={"dist": dist, "samples": n_samp, "scale": scale, "n": nbits, "otype": otype} if i < 6 else None)
    ctx.bin("adc.dist", dist)
    ctx.bin("adc.len>=1e4", n_samp >= 10000)


def w_adc_errors(ctx, rng, i):
    x = rng.normal(0, 1, 100)
    with core.quiet():
        ctx.probe("adc.other_otype", D.ADC, x, None, 4, str(rng.choice(["x", "volts", "", "N "])))        # (probe: the statement has no rejection clause)
    ctx.case(("adcerr", i))


def w_shortest(ctx, rng, i):
    kind = ["continuous", "few_levels", "plateau_ends", "integers", "tiny_scale", "blocks"][i % 6]
    n = core.long_or(rng, i, int(rng.choice([2, 3, 5, 9, 10, 17, 100, 1000, 10007])), longs=(40000, 2 ** 17, 2 ** 16 + 1))
    scale = float(10 ** rng.uniform(-9, 3))
    if kind == "continuous":
        d = rng.normal(0, 1, n) * scale
    elif kind == "few_levels":
        d = rng.integers(0, int(rng.integers(2, 6)), n).astype(float) * scale
    elif kind == "plateau_ends":
        k = max(1, n // 3)
        d = np.concatenate([np.zeros(k), np.sort(rng.uniform(0.1, 0.9, n - 2 * k)) if n - 2 * k > 0 else [], np.ones(k)])[:n] * scale
        d = np.resize(d, n)
    elif kind == "integers":
        d = rng.integers(-20, 20, n).astype(float)
        if i % 12 == 3:        # integer dtype, values beyond 2**53 (nanosecond timestamps): "two data values" means these integers, not their float neighbours
            d = (rng.integers(0, 40, n) * int(rng.choice([1, 5, 7])) + 1_700_000_000_000_000_003).astype(np.int64)
        elif i % 12 == 9:      # quantised data in its native integer carrier, using the carrier's whole range (an int16 capture at full scale, uint64 counters above 2^63):
            dt = np.dtype(str(rng.choice(["int8", "int16", "int32", "int64", "uint8", "uint16", "uint32", "uint64"])))       # widths beyond the signed maximum must not wrap
            info = np.iinfo(dt)
            levels = rng.integers(info.min, info.max, int(rng.integers(2, 40)), dtype=dt, endpoint=True)
            d = levels[rng.integers(0, levels.size, n)]
            ctx.bin("si.int_carrier", str(dt))
    elif kind == "tiny_scale":
        d = rng.normal(0, 1, n) * 10 ** rng.uniform(-13, -10)
    else:
        d = np.repeat(rng.normal(0, 1, max(1, n // 4 + 1)), 4)[:n] * scale
        d = np.resize(d, n)
    d = d[rng.permutation(d.size)]
    mode = int(rng.integers(5))
    if mode == 0:
        p = float(rng.uniform(0.001, 99.999))
    elif mode == 1:   # lag 0
        p = float(rng.uniform(min(0.0001, 50.0 / n), 100.0 / n * 0.999))
    elif mode == 2:   # lag 1
        p = 100.0 * 1.5 / n if n > 2 else 60.0
    elif mode == 3:   # lag len-1
        p = 100.0 * (n - 0.5) / n
    else:
        p = float(rng.choice([50, 99.99, 25, 75, 10, 90]))
    p = min(p, 99.9999)
    lag = int(n * p / 100)
    ctx.describe(kind=kind, n=n, percent=p, lag=lag, data=d if n <= 12 else None)
    keep = d.copy()
    with core.quiet():
        r = U.shortest_int(d, p)          # si.post decides
    ctx.check("si.input_unchanged", np.array_equal(d, keep), "shortest_int modified its input")
    d_s = np.sort(d)
    r = np.asarray(r).reshape(-1)
    if d.dtype.kind in "iu":
        lo_, hi_ = (int(r[0]), int(r[1])) if np.all(np.isfinite(np.asarray(r, float))) else (0, -1)
        inside = int(np.count_nonzero((d >= lo_) & (d <= hi_)))
    else:
        r = r.astype(float)
        inside = int(np.count_nonzero((d >= r[0]) & (d <= r[1])))
    ctx.check("si.covers", inside >= lag + 1, f"closed interval contains {inside} samples, fewer than lag+1={lag + 1}")
    ctx.case(("si", kind, n, "lag0" if lag == 0 else "lag1" if lag == 1 else "lagmax" if lag == n - 1 else "mid"), nontrivial=np.unique(d).size >= 2,
             sample={"kind": kind, "n": n, "percent": p, "lag": lag, "result": r} if i < 6 else None)
    ctx.bin("si.kind", kind)
    ctx.bin("si.lag", "0" if lag == 0 else "1" if lag == 1 else "len-1" if lag == n - 1 else "mid")


def w_known_patterns(ctx, rng, i):
    pats = [([0, 0, 0, 3, 5, 8, 10, 10, 10], 25.0), ([0, 0, 1, 1, 5, 6, 6, 9, 9], 25.0), ([1, 1, 1, 1], 50.0), ([0, 1], 60.0), ([3, 1, 2], 40.0),
            ([0, 0, 0, 0, 1, 2, 3, 3, 3, 3], 35.0), ([5.0, 5.0, 7.0, 9.0, 9.0], 45.0), ([0, 0, 1e-11, 1e-11, 5e-11, 9e-11, 9e-11], 30.0)]
    d, p = pats[i % len(pats)]
    ctx.describe(data=d, percent=p)
    with core.quiet():
        U.shortest_int(np.array(d, dtype=float), p)
    ctx.case(("pat", i % len(pats)), sample={"data": d, "percent": p})


def w_buffer_reuse(ctx, rng, i):
    """one sample buffer refilled / rescaled in place between ADC calls (an acquisition loop): every call must quantise the data the
    buffer holds NOW."""
    n_samp = int(rng.choice([1000, 10000, 20000]))
    buf = np.empty(n_samp)
    nbits = int(rng.integers(2, 11))
    otype = "vn"[int(rng.integers(2))]
    ctx.describe(n_samp=n_samp, nbits=nbits, otype=otype)
    for k in range(4):
        scale = float(10 ** rng.uniform(-4, 2))
        if k == 2:
            buf *= float(rng.uniform(3, 30))                 # rescaled in place
        else:
            buf[:] = rng.normal(rng.normal(0, 1) * scale, scale, n_samp)
        with core.quiet():
            D.ADC(buf, n=nbits, otype=otype)                 # adc.* monitors decide
            D.ADC(T.electrical_signal(buf), n=nbits, otype=otype)
    ctx.case(("reuse", n_samp, nbits, otype), sample=dict(n_samp=n_samp, n=nbits, otype=otype, calls=8) if i < 2 else None)


def FORM_TWINS():
    import opticomlib.devices as dv
    import opticomlib.utils as ut
    return [(dv, ["ADC"]), (ut, ["shortest_int"])]


WORKLOADS = [
    Workload("adc", w_adc, 1500, 60000, budget=120),
    Workload("adc_errors", w_adc_errors, 5, 50),
    Workload("shortest", w_shortest, 8000, 400000),
    Workload("known_patterns", w_known_patterns, 8, 8),
    Workload("repo_tests", lambda ctx, rng, i: core.run_repo_tests(ctx), 1, 1, budget=1800, tiers=("thorough",)),
    Workload("buffer_reuse", w_buffer_reuse, 40, 2000, budget=120),
]


def classify(v):
    return None
