"""C17 — the eye estimator recovers the levels of a clean two-level signal in any unit."""
import numpy as np

from .. import core
from ..run import Workload

RULE = ("random and PRBS patterns of 64..512 slots, sps in {8,16,32}, sps_resamp=128, band-limited by LPF(0.7..1.5 R), level pairs (a,b) with b-a "
        "log-uniform in [1e-3,100] V and offsets of either sign, noise sigma in [0.5%,5%] of b-a, numpy seed fixed per case; equivariance twin: the "
        "same record scaled by alpha in [1e-3,1e3] and offset by beta under the same numpy seed. Non-trivial: every case (both symbols present, "
        ">= 64 slots); distinct by (pattern class, sps, swing decade, sigma bin, offset sign, filter bin, seed).")
ASSUMPTIONS = ["equivariance slack: mu within 0.5% of alpha*(b-a), s within 10% relative + 0.5% of alpha*(b-a), timing within one resampled grid step (1/128 slot)",
               "noise is added after the band-limiting filter so that its standard deviation at the decision instant is the stated sigma"]
TOLERANCES = {"mu": "8% of (b-a)", "s": "[sigma/2, 2*sigma + 3% of (b-a)]", "t_dist": "1 +- 0.1", "t_opt": "midpoint +- 1/128"}
MIN_CHECKS = {"eye.levels": 80, "eye.timing": 80, "eye.equivariance": 30}
SHARDS = {"quick": 4}

D = T = None


def setup(ctx):
    global D, T
    import opticomlib.devices as dv
    import opticomlib.typing as ty
    D, T = dv, ty


def make_record(rng, sps, nslots, pattern):
    if pattern == "prbs":
        order = int(rng.choice([7, 9, 11]))
        with core.monitor_scope(), core.quiet():
            bits = D.PRBS(order, len=nslots, seed=int(rng.integers(1, 2 ** order))).data.astype(float)
    elif pattern == "sparse":       # "both symbols present" is all the statement asks: mark ratios of 10 % and 90 % (long records, so that the rare symbol still has a couple of hundred slots)
        p1 = float(rng.choice([0.1, 0.9, 0.15, 0.85]))
        bits = (rng.random(nslots) < p1).astype(float)
        rare = 1.0 if p1 < 0.5 else 0.0
        need = 8 - int(np.sum(bits == rare))
        if need > 0:
            bits[rng.choice(np.flatnonzero(bits != rare), need, replace=False)] = rare
    else:
        bits = rng.integers(0, 2, nslots).astype(float)
        bits[:2] = [0, 1]
    return bits


def check_eye(ctx, e, a, b, sigma, sps, tag, nslots=None):
    d = b - a
    fields = ["mu0", "mu1", "s0", "s1", "threshold", "t_left", "t_right", "t_opt", "i"]
    vals = {k: getattr(e, k, None) for k in fields}
    fin = all(v is not None and np.isfinite(v) for v in vals.values())
    if not ctx.check("eye.finite", fin, f"{tag}: GET_EYE returned non-finite / missing estimates {core.jsonable(vals)}", swing=d):
        return False
    ok = True
    ok &= ctx.check("eye.levels", abs(e.mu0 - a) <= 0.08 * d and abs(e.mu1 - b) <= 0.08 * d, f"{tag}: mu0={e.mu0!r}, mu1={e.mu1!r} not within 8% of (b-a) of the levels a={a!r}, b={b!r}", swing=d)
    lo, hi = sigma / 2, 2 * sigma + 0.03 * d
    ok &= ctx.check("eye.sigmas", lo <= e.s0 <= hi and lo <= e.s1 <= hi, f"{tag}: s0={e.s0!r}, s1={e.s1!r} outside [sigma/2, 2 sigma + 3%(b-a)] = [{lo!r},{hi!r}]", swing=d,
                    nslots=nslots, s_over_sigma=[float(e.s0 / sigma), float(e.s1 / sigma)], above=bool(e.s0 > hi or e.s1 > hi))
    ok &= ctx.check("eye.threshold", e.mu0 < e.threshold < e.mu1, f"{tag}: threshold {e.threshold!r} not between mu0={e.mu0!r} and mu1={e.mu1!r}", swing=d)
    ok &= ctx.check("eye.timing", abs((e.t_right - e.t_left) - 1) <= 0.1, f"{tag}: crossings t_left={e.t_left!r}, t_right={e.t_right!r} are not one slot apart", swing=d)
    ok &= ctx.check("eye.timing", abs(e.t_opt - (e.t_left + e.t_right) / 2) <= 1 / 128 + 1e-12, f"{tag}: t_opt={e.t_opt!r} is not midway between the crossings ({(e.t_left + e.t_right) / 2!r})", swing=d)
    ok &= ctx.check("eye.index", isinstance(e.i, (int, np.integer)) and 0 <= e.i < sps, f"{tag}: sampling index i={e.i!r} is not an integer in [0,{sps})", swing=d)
    return ok


def w_eye(ctx, rng, i):
    sps = int(rng.choice([8, 16, 32]))
    R = float(rng.choice([1e9, 2.5e9, 1e10]))
    with core.quiet():
        T.gv(sps=sps, R=R)
    nslots = int(rng.choice([64, 65, 127, 128, 255, 256, 511, 512]))     # odd slot counts (a whole PRBS period) exercise the truncation to an even number of slots
    pattern = ["random", "prbs", "random", "prbs", "sparse"][i % 5]
    if pattern == "sparse":
        nslots = int(rng.choice([2048, 2047, 3001]))      # enough slots of the rare symbol (200+) for its sigma estimate: the short-record finite-sample effect (known finding) is not the subject here
    bits = make_record(rng, sps, nslots, pattern)
    swing = float(10 ** rng.uniform(-3, 2))
    if i % 7 == 0:
        swing = float([1e-3, 100.0, 5.0, 10.0, 1.0, 0.01, 50.0][i // 7 % 7])
    a = float(rng.choice([0.0, 0.0, 1.0, -1.0, -0.5, 3.0])) * swing * float(rng.uniform(0, 2))
    b = a + swing
    sig_frac = float(rng.uniform(0.005, 0.05))
    sigma = sig_frac * swing
    bw = float(rng.uniform(0.7, 1.5)) * R
    seed = int(rng.integers(2 ** 31))
    alpha = float(10 ** rng.uniform(-3, 3))
    beta = float(rng.normal(0, 2)) * swing * alpha * float(rng.choice([0, 1, 1]))
    if i % 3 == 2:        # a large pedestal: 'offsetting it by any beta' (every third case: combines with every pattern class, the long records included)
        beta = float(10 ** rng.uniform(1, 6)) * swing * alpha * float(rng.choice([1, -1]))
    ctx.describe(sps=sps, R=R, nslots=nslots, pattern=pattern, a=a, b=b, sigma_frac=sig_frac, bw_over_R=bw / R, numpy_seed=seed, alpha=alpha, beta=beta)
    with core.quiet():
        unit = D.LPF(np.kron(bits, np.ones(sps)), bw).signal                 # 0..1 band-limited waveform
        noise = rng.normal(0, 1, unit.size)
        y = a + swing * unit + sigma * noise
        form = int(rng.integers(3))
        if i % 11 == 0 and swing >= 1:              # quantised record (ADC codes of a 10-bit converter over the swing), integer dtype
            q = swing / 1024
            y = np.round(y / q).astype(int)
            a, b, sigma, swing = a / q, b / q, sigma / q, swing / q
            form = 2 * int(rng.integers(2))
        x = T.electrical_signal(y) if form == 0 else (T.electrical_signal(a + swing * unit, sigma * noise) if form == 1 else y)
        d0 = core.digest(y)
        np.random.seed(seed)
        e = D.GET_EYE(x, sps_resamp=128)
        ctx.check("input_unchanged", core.digest(y) == d0, "GET_EYE modified its input")
        ok = check_eye(ctx, e, a, b, sigma, sps, "record", nslots)
        # equivariance twin under the same numpy seed
        y2 = alpha * y + beta
        np.random.seed(seed)
        e2 = D.GET_EYE(T.electrical_signal(y2), sps_resamp=128)
        ok2 = check_eye(ctx, e2, alpha * a + beta, alpha * b + beta, alpha * sigma, sps, f"scaled record (alpha={alpha:.3g})", nslots)
        if ok and ok2:
            sw2 = alpha * swing
            good = abs(e2.mu0 - (alpha * e.mu0 + beta)) <= 0.005 * sw2 and abs(e2.mu1 - (alpha * e.mu1 + beta)) <= 0.005 * sw2
            good &= abs(e2.s0 - alpha * e.s0) <= 0.1 * alpha * e.s0 + 0.005 * sw2 and abs(e2.s1 - alpha * e.s1) <= 0.1 * alpha * e.s1 + 0.005 * sw2
            ctx.check("eye.equivariance", good, f"levels/sigmas do not follow a change of units x -> {alpha:.4g} x + {beta:.4g}: ({e.mu0!r},{e.mu1!r},{e.s0!r},{e.s1!r}) -> ({e2.mu0!r},{e2.mu1!r},{e2.s0!r},{e2.s1!r})", swing=swing, swing2=sw2)
            step = 1 / 128 + 1e-12
            ctx.check("eye.equivariance", abs(e2.t_left - e.t_left) <= step and abs(e2.t_right - e.t_right) <= step and abs(e2.t_opt - e.t_opt) <= step and abs(int(e2.i) - int(e.i)) <= 1,
                      f"timing outputs change with the units: t_left {e.t_left!r}->{e2.t_left!r}, t_right {e.t_right!r}->{e2.t_right!r}, t_opt {e.t_opt!r}->{e2.t_opt!r}, i {e.i!r}->{e2.i!r}", swing=swing, swing2=sw2)
    ctx.case(("eye", pattern, sps, nslots, round(np.log10(swing)), round(sig_frac, 2), int(np.sign(a)), round(bw / R, 1), form), sample=dict(sps=sps, nslots=nslots, pattern=pattern, a=a, b=b, sigma=sigma, alpha=alpha, beta=beta,
                                                                                                                                         mu0=getattr(e, "mu0", None), mu1=getattr(e, "mu1", None), t_left=getattr(e, "t_left", None), t_right=getattr(e, "t_right", None)) if i < 6 else None)
    ctx.bin("swing_decade", int(np.floor(np.log10(swing))))
    ctx.bin("swing2_decade", int(np.floor(np.log10(swing * alpha))))


def FORM_TWINS():
    import opticomlib.devices as dv
    return [(dv, ["GET_EYE"])]


WORKLOADS = [
    Workload("eye", w_eye, 600, 12000, budget=120),
]


def classify(v):
    """mechanism key of a violation, from the conditions of the failing case (never from seeds or values)."""
    info = v.get("info") or {}
    if v.get("monitor") == "eye.sigmas" and isinstance(info, dict):
        r = info.get("s_over_sigma")
        ns = info.get("nslots")
        if isinstance(r, dict):
            r = r.get("nd")
        if ns is not None and ns <= 130 and r and not info.get("above") and all(x >= 0.3 for x in r):
            return "sigma-underestimated-on-short-records"
    return None
