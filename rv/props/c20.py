"""C20 — PPG driver emits only in-range commands; memory round-trips; SYNC aligns."""
import contextlib
import io
import re
import warnings

import numpy as np

from .. import core
from ..run import Workload

RULE = ("requested values over +-3 decades around each documented limit and exactly on it (scalars and per-channel lists), channel selections "
        "{None, 0, 1..4, 5, 9, lists, > 4 entries}, data lengths 1..10^4 with every length around the 1024-bit block boundaries, start addresses "
        "incl. near 2^21, random histories of 50 set_*/get_*/__call__ operations against a simulated instrument that checks every SCPI string "
        "online, the same in dry-run mode through captured stdout; SYNC over PRBS7/9/11 patterns, sps 2..32, every boundary delay and random "
        "delays, noise sigma <= 0.2. Non-trivial: any emitted command / any SYNC call; distinct by (operation, value class, channel selection, length class).")
ASSUMPTIONS = ["the simulated instrument implements the documented command grammar, a 4 x 2^21-bit pattern memory and IEEE-488.2 definite-length blocks",
               "get_data's result is compared per channel after flattening (the property fixes the bits, not the array layout)",
               "a received record shorter than the pattern may be rejected with BufferError or ValueError",
               "SYNC records are the unipolar pattern waveform scaled by a positive gain plus a non-negative offset and Gaussian noise of sigma <= 0.2 * gain, "
               "further capped so that the correlation margin between the true delay and a one-sample offset is at least 8 standard deviations ('moderate noise'; thorough tier, seed 2, had "
               "flipped delay 0 into l-1 at 2.5 standard deviations for 32 samples per slot — a false alarm of the first version)"]
MIN_CHECKS = {"scpi.grammar": 1500, "scpi.in_range": 600, "clamp.emitted": 300, "clamp.warned": 300, "memory.roundtrip": 60, "sync.index": 100}
SHARDS = {"quick": 4}

L = T = D = None
MEM = 2 ** 21
LIMITS = {"freq": (1.5e9, 32e9), "amp": (0.3, 2.0), "offs": (-2.0, 3.0), "skew": (-25e-12, 25e-12), "leng": (2, MEM)}
ORDERS = [7, 9, 11, 15, 23, 31]
NUM = r"[-+]?(?:\d+\.?\d*|\.\d+)(?:[eE][-+]?\d+)?"


class Instrument:
    """Simulated PPG3204: parses every command (online trace checker), keeps settings + pattern memory, answers queries."""

    def __init__(self, ctx):
        self.ctx = ctx
        self.log = []
        self.mem = {ch: {} for ch in range(1, 5)}      # sparse: address -> bit
        self.settings = {}
        self.timeout = 0

    def clear(self):
        pass

    def close(self):
        pass

    def bad(self, monitor, msg):
        self.ctx.check(monitor, False, msg)

    def ok(self, monitor):
        self.ctx.check(monitor, True)

    def _ch(self, s, cmd):
        ch = int(s)
        if 1 <= ch <= 4:
            self.ok("scpi.channel")
        else:
            self.bad("scpi.channel", f"command addresses channel {ch}: {cmd[:60]!r}")
        return ch

    def _range(self, kind, v, cmd):
        lo, hi = LIMITS[kind]
        tol = 1e-9 * max(abs(lo), abs(hi))
        if lo - tol <= v <= hi + tol:
            self.ok("scpi.in_range")
        else:
            self.bad("scpi.in_range", f"{kind} value {v!r} outside the instrument limits [{lo},{hi}]: {cmd[:60]!r}")

    def query(self, cmd):
        self.ctx.call("scpi.grammar")
        ev = self.parse(cmd)
        self.log.append(ev)
        if ev is None:
            self.bad("scpi.grammar", f"command does not match the PPG3204 grammar: {cmd[:80]!r}")
            return "\n\n"
        self.ok("scpi.grammar")
        return ev.get("reply", "\n")

    def parse(self, cmd):
        if not isinstance(cmd, str):
            return None
        if cmd == "*RST":
            return {"op": "rst"}
        if cmd == "*IDN?":
            return {"op": "idn", "reply": "SIM,PPG3204\n"}
        m = re.fullmatch(rf":FREQ ({NUM})", cmd)
        if m:
            v = float(m.group(1))
            self._range("freq", v, cmd)
            self.settings["freq"] = v
            return {"op": "freq", "value": v}
        if cmd == ":FREQ?":
            return {"op": "freq?", "reply": f"{self.settings.get('freq', 1e10)}\n"}
        m = re.fullmatch(rf":DIG(\d+):PATT:LENG ({NUM})", cmd)
        if m:
            ch = self._ch(m.group(1), cmd)
            if not re.fullmatch(r"\d+", m.group(2)):
                return None
            v = int(m.group(2))
            self._range("leng", v, cmd)
            self.settings[("leng", ch)] = v
            return {"op": "leng", "ch": ch, "value": v}
        m = re.fullmatch(r":DIG(\d+):PATT:(LENG|TYPE|PLEN|BSH)\?", cmd)
        if m:
            ch = self._ch(m.group(1), cmd)
            key = m.group(2).lower()
            dflt = {"leng": 2, "type": "DATA", "plen": 7, "bsh": 0}[key]
            return {"op": key + "?", "ch": ch, "reply": f"{self.settings.get((key, ch), dflt)}\n"}
        m = re.fullmatch(r":DIG(\d+):PATT:TYPE (\w+)", cmd)
        if m:
            ch = self._ch(m.group(1), cmd)
            if m.group(2) not in ("DATA", "PRBS"):
                return None
            self.settings[("type", ch)] = m.group(2)
            return {"op": "type", "ch": ch, "value": m.group(2)}
        m = re.fullmatch(r":DIG(\d+):PATT:PLEN (-?\d+)", cmd)
        if m:
            ch = self._ch(m.group(1), cmd)
            v = int(m.group(2))
            if v in ORDERS:
                self.ok("scpi.in_range")
            else:
                self.bad("scpi.in_range", f"PRBS order {v} is not in the supported list {ORDERS}: {cmd!r}")
            self.settings[("plen", ch)] = v
            return {"op": "plen", "ch": ch, "value": v}
        m = re.fullmatch(rf":DIG(\d+):PATT:BSH ({NUM})", cmd)
        if m:
            ch = self._ch(m.group(1), cmd)
            self.settings[("bsh", ch)] = m.group(2)
            return {"op": "bsh", "ch": ch, "value": float(m.group(2))}
        m = re.fullmatch(r":DIG(\d+):PATT:DATA (\d+),(\d+),#(\d)(.*)", cmd, re.S)
        if m:
            ch = self._ch(m.group(1), cmd)
            p, n, k, rest = int(m.group(2)), int(m.group(3)), int(m.group(4)), m.group(5)
            good = k >= 1 and len(rest) >= k and rest[:k].isdigit()
            if good:
                cnt = int(rest[:k])
                payload = rest[k:]
                good = cnt == n and k == len(str(n)) and len(payload) == n and set(payload) <= {"0", "1"}
            if good and 1 <= n <= 1024 and p >= 1 and p + n - 1 <= MEM:
                self.ok("scpi.block")
                for j, c in enumerate(payload):
                    self.mem[ch][p + j] = int(c)
            else:
                self.bad("scpi.block", f"malformed / oversized data block (address {p}, n={n}, header #{k}{rest[:k]!r}, payload {len(rest) - k} chars): {cmd[:50]!r}")
                return {"op": "data", "ch": ch, "addr": p, "n": n, "bad": True}
            return {"op": "data", "ch": ch, "addr": p, "n": n}
        m = re.fullmatch(r":DIG(\d+):PATT:DATA\? (\d+),(\d+)", cmd)
        if m:
            ch = self._ch(m.group(1), cmd)
            p, n = int(m.group(2)), int(m.group(3))
            if 1 <= n <= 1024 and p >= 1 and p + n - 1 <= MEM:
                self.ok("scpi.block")
            else:
                self.bad("scpi.block", f"data query outside 1..1024 bits / the memory: {cmd!r}")
                n = max(0, min(n, 1024))
            payload = "".join(str(self.mem[ch].get(p + j, 0)) for j in range(n))
            return {"op": "data?", "ch": ch, "addr": p, "n": n, "reply": f"#{len(str(n))}{n}{payload}\n"}
        m = re.fullmatch(r":OUTP(\d+) (ON|OFF)", cmd)
        if m:
            ch = self._ch(m.group(1), cmd)
            return {"op": "outp", "ch": ch, "value": m.group(2)}
        m = re.fullmatch(rf":SKEW(\d+) ({NUM})", cmd)
        if m:
            ch = self._ch(m.group(1), cmd)
            v = float(m.group(2))
            self._range("skew", v, cmd)
            self.settings[("skew", ch)] = v
            return {"op": "skew", "ch": ch, "value": v}
        m = re.fullmatch(r":SKEW(\d+)\?", cmd)
        if m:
            ch = self._ch(m.group(1), cmd)
            return {"op": "skew?", "ch": ch, "reply": f"{self.settings.get(('skew', ch), 0.0)}\n"}
        m = re.fullmatch(rf":VOLT(\d+):POS ({NUM})v", cmd)
        if m:
            ch = self._ch(m.group(1), cmd)
            v = float(m.group(2))
            self._range("amp", v, cmd)
            self.settings[("amp", ch)] = v
            return {"op": "amp", "ch": ch, "value": v}
        m = re.fullmatch(rf":VOLT(\d+):(POS|NEG):OFFS ({NUM})v", cmd)
        if m:
            ch = self._ch(m.group(1), cmd)
            v = float(m.group(3))
            self._range("offs", v, cmd)
            if (m.group(2) == "NEG") != (v < 0) and v != 0:
                self.bad("scpi.in_range", f"offset sign does not match the POS/NEG form: {cmd!r}")
            self.settings[("offs", ch)] = v
            return {"op": "offs", "ch": ch, "value": v}
        m = re.fullmatch(r":VOLT(\d+):(POS|OFFS)\?", cmd)
        if m:
            ch = self._ch(m.group(1), cmd)
            key = "amp" if m.group(2) == "POS" else "offs"
            return {"op": key + "?", "ch": ch, "reply": f"{self.settings.get((key, ch), 1.0)}\n"}
        return None


def setup(ctx):
    global L, T, D
    import opticomlib.lab as lab
    import opticomlib.typing as ty
    import opticomlib.devices as dv
    L, T, D = lab, ty, dv


def new_driver(ctx, dry=False):
    ppg = L.PPG3204()
    inst = None
    if not dry:
        inst = Instrument(ctx)
        ppg.inst = inst
    return ppg, inst


@contextlib.contextmanager
def session(ctx, ppg, inst):
    """run driver calls; yields a dict that ends up holding the events and the warnings issued. In dry-run mode the printed commands
    are fed to a checker instrument."""
    out = {"events": [], "warnings": []}
    buf = io.StringIO()
    start = len(inst.log) if inst is not None else 0
    import sys
    old = sys.stdout
    with warnings.catch_warnings(record=True) as wl:
        warnings.simplefilter("always")
        _live.append(wl)
        sys.stdout = buf
        amb0 = core.ambient_snapshot(full=False)
        try:
            yield out
        finally:
            sys.stdout = old
            _live.pop()
            # "a warning is issued" for every clamped request of any call sequence: the driver must not reconfigure the
            # process-wide warnings machinery (a 'once' / 'ignore' filter pushed by one call silences the warnings of later ones)
            amb = core.ambient_diff(amb0, core.ambient_snapshot(full=False))
            ctx.check("ambient.unchanged", amb is None, f"a driver call changed process-global state and did not restore it: {amb}")
    out["warnings"] = [str(w.message) for w in wl]
    if inst is not None:
        out["events"] = inst.log[start:]
    else:
        chk = Instrument(ctx)
        for line in buf.getvalue().splitlines():
            if line.strip():
                chk.query(line)
        out["events"] = chk.log


_live = []


def _peek_warnings():
    """warnings recorded so far by the innermost open session"""
    return list(_live[-1]) if _live else []


def expected_channels(sel):
    if sel is None:
        return [1, 2, 3, 4]
    a = np.atleast_1d(np.array(sel, dtype=int))
    return [int(v) for v in np.clip(a, 1, 4)[:4]]


def channel_selection(rng):
    c = int(rng.integers(9))
    if c == 0:
        return None
    if c == 1:
        return int(rng.integers(1, 5))
    if c == 2:
        return int(rng.choice([0, 5, 9, -1]))
    if c == 3:
        return [int(v) for v in rng.permutation(4)[: int(rng.integers(1, 5))] + 1]
    if c == 4:
        return [[1, 2, 3, 4, 4, 2][: int(rng.integers(5, 7))], [1, 2, 3, 4, 5], [4, 3, 2, 1, 1, 2, 3]][int(rng.integers(3))]
    if c == 5:
        return [0, 3, 7]
    if c == 6:
        return tuple(int(v) for v in rng.integers(1, 5, 2))
    if c == 7:
        return np.array([2, 4])
    return [int(rng.integers(1, 5))]


def value_near(rng, lo, hi, integer=False):
    """a value on / just inside / just outside / decades away from the limits."""
    c = int(rng.integers(8))
    span = hi - lo
    if c == 0:
        v = lo
    elif c == 1:
        v = hi
    elif c == 2:      # from one part in 1e12 outside (still outside: clamped and warned) to three decades away
        v = lo - abs(lo if lo else span) * 10 ** rng.uniform(-12, 3)
    elif c == 3:
        v = hi + abs(hi if hi else span) * 10 ** rng.uniform(-12, 3)
    elif c == 4:
        v = lo + span * 10 ** rng.uniform(-12, -0.5)
    elif c == 5:
        v = hi - span * 10 ** rng.uniform(-12, -0.5)
    elif c == 6:
        v = rng.uniform(lo, hi)
    else:
        v = 0.0 if lo <= 0 else lo * 10 ** rng.uniform(-3, 0)
    return int(round(v)) if integer else float(v)


SETTERS = {
    "amp": ("set_output_voltage", LIMITS["amp"], 0.05 + 1e-9),      # printed with one decimal
    "offs": ("set_offset", LIMITS["offs"], 0.05 + 1e-9),
    "skew": ("set_skew", LIMITS["skew"], 1e-18),
    "leng": ("set_patt_len", LIMITS["leng"], 0),
}


def check_setter(ctx, kind, events, warns, requested, chans):
    """requested: list of per-channel requested values (already broadcast); events of that kind must be the clamped values."""
    lo, hi = SETTERS[kind][1] if kind in SETTERS else LIMITS[kind]
    prec = SETTERS[kind][2] if kind in SETTERS else None
    evs = [e for e in events if e and e["op"] == kind]
    ctx.check("clamp.count", len(evs) == len(chans), f"{kind}: {len(evs)} commands emitted for channels {chans}")
    out_of_range = any(v < lo or v > hi for v in requested)
    for e, ch, v in zip(evs, chans, requested):
        want = min(max(v, lo), hi)
        ctx.check("clamp.emitted", e["ch"] == ch and abs(e["value"] - want) <= prec + 1e-12 * abs(want), f"{kind} CH{ch}: requested {v!r}, emitted {e['value']!r}, expected the clamped value {want!r}")
    # `warns`: the warnings of a session whose channel selection is valid, so that any warning is about the value. Counted, never read:
    # the wording of a warning is not part of the property (false alarm on refactoring R13-C20, whose clamp warning names the channel)
    got_warning = len(warns) > 0
    ctx.check("clamp.warned", got_warning == out_of_range, f"{kind}: request {'out of' if out_of_range else 'inside'} range but warning issued = {got_warning}")


def w_setters(ctx, rng, i):
    dry = i % 5 == 4
    ppg, inst = new_driver(ctx, dry)
    kind = ["amp", "offs", "skew", "leng", "freq"][i % 5 if not dry else int(rng.integers(5))]
    sel = channel_selection(rng)
    chans = expected_channels(sel)
    ctx.describe(kind=kind, dry_run=dry, channels=sel)
    if kind == "freq":
        v = value_near(rng, *LIMITS["freq"])
        ctx.describe(kind=kind, dry_run=dry, value=v)
        with session(ctx, ppg, inst) as s:
            ppg.set_freq(v)
        evs = [e for e in s["events"] if e and e["op"] == "freq"]
        want = min(max(v, LIMITS["freq"][0]), LIMITS["freq"][1])
        ctx.check("clamp.emitted", len(evs) == 1 and abs(evs[0]["value"] - want) <= 1e-5 * want, f"set_freq({v!r}) emitted {[e['value'] for e in evs]}, expected {want!r}")
        oor = v < LIMITS["freq"][0] or v > LIMITS["freq"][1]
        ctx.check("clamp.warned", bool(s["warnings"]) == oor, f"set_freq({v!r}): out of range={oor}, warnings={s['warnings'][:1]}")
    else:
        name, (lo, hi), _ = SETTERS[kind]
        integer = kind == "leng"
        scalar = bool(rng.integers(2))
        if scalar:
            v = value_near(rng, lo, hi, integer)
            arg, requested = v, [v] * len(chans)
        else:
            vals = [value_near(rng, lo, hi, integer) for _ in chans]
            requested = vals
            if sel is not None and np.size(sel) > len(chans) and rng.integers(2):
                # one value per entry of an over-long channel selection: the surplus is dropped with the surplus channels (a warning, not an error)
                # (surplus values are kept inside the range: whether an out-of-range value that is dropped anyway deserves a warning is not specified)
                surplus = [rng.uniform(lo + 0.1 * (hi - lo), hi - 0.1 * (hi - lo)) for _ in range(int(np.size(sel)) - len(chans))]
                vals = vals + [int(round(v)) if integer else float(v) for v in surplus]
            arg = [vals, tuple(vals), np.array(vals)][int(rng.integers(3))]
        ctx.describe(kind=kind, dry_run=dry, channels=sel, requested=requested, scalar=scalar)
        with session(ctx, ppg, inst) as s:
            getattr(ppg, name)(arg, sel)
        sel_arr = None if sel is None else np.atleast_1d(np.array(sel, dtype=int))
        sel_bad = bool(sel_arr is not None and (np.any(sel_arr < 1) or np.any(sel_arr > 4) or sel_arr.size > 4))
        oor = any(v < lo or v > hi for v in requested)
        if sel_bad:
            # which warning is about what is decided without reading them: the same values are requested again on a fresh driver with the
            # valid selection that the bad one reduces to — whatever is warned there is about the values
            ctx.check("channels.warned", len(s["warnings"]) >= 1, f"channel selection {sel!r} is out of range and no warning was issued")
            ppg2, inst2 = new_driver(ctx, dry)
            with session(ctx, ppg2, inst2) as s2:
                getattr(ppg2, name)(list(requested), list(chans))
            check_setter(ctx, kind, s["events"], s2["warnings"], requested, chans)
        else:
            check_setter(ctx, kind, s["events"], s["warnings"], requested, chans)
            ctx.check("channels.warned", bool(s["warnings"]) == oor, f"channel selection {sel!r} is valid and the values are {'out of' if oor else 'in'} range, yet warnings = {s['warnings'][:2]}")
    ctx.case(("set", kind, dry, repr(sel), i // 5 if kind == "freq" else repr(np.round(np.array(requested, float), 3 if kind != "skew" else 14))), sample=dict(kind=kind, dry_run=dry, channels=sel, events=[e for e in s["events"] if e][:4]) if i < 6 else None)
    ctx.bin("setter", kind)
    ctx.bin("dry_run", dry)


def w_misc_commands(ctx, rng, i):
    ppg, inst = new_driver(ctx, i % 4 == 3)
    sel = channel_selection(rng)
    chans = expected_channels(sel)
    ctx.describe(channels=sel)
    with session(ctx, ppg, inst) as s:
        ppg.set_mode(str(rng.choice(["data", "prbs", "DATA", "Prbs"])), sel)
        def any_order():     # "whatever values the caller requests": small integers, the sequence LENGTHS 2^n - 1 a caller may confuse with the order, powers of ten, huge values
            k = int(rng.integers(6))
            n = int(rng.integers(1, 41))
            return [int(rng.choice(ORDERS)), int(rng.integers(-10, 70)), 2 ** n - 1, 2 ** n + int(rng.integers(0, 2)), 10 ** int(rng.integers(1, 12)), int(rng.choice([3, 8, 10, 13, 20, 40, 100, -5]))][k]
        order = [int(rng.choice(ORDERS)), any_order(), [any_order() if rng.integers(2) else int(rng.choice(ORDERS + [12, 25])) for _ in chans]][int(rng.integers(3))]
        n_before = len(_peek_warnings())
        ppg.set_prbs_order(order, sel)
        n_order_warn = len(_peek_warnings()) - n_before
        ppg.set_bits_shift(int(rng.integers(-5, 100)), sel)
        ppg.enable_outputs(sel)
        ppg.disable_outputs(sel)
        if inst is not None:
            ppg.get_patt_len(sel), ppg.get_mode(sel), ppg.get_prbs_order(sel), ppg.get_bits_shift(sel), ppg.get_skew(sel), ppg.get_output_voltage(sel), ppg.get_offset(sel), ppg.get_freq()
        ppg.reset()
    pl = [e for e in s["events"] if e and e["op"] == "plen"]
    ctx.check("clamp.count", len(pl) == len(chans) and [e["ch"] for e in pl] == chans, f"set_prbs_order emitted {len(pl)} commands for channels {chans}")
    req = order if isinstance(order, list) else [order] * len(chans)
    for e, v in zip(pl, req):
        want = v if v in ORDERS else ORDERS[int(np.argmin(np.abs(np.array(ORDERS) - v)))]
        ctx.check("clamp.emitted", e["value"] == want or (v not in ORDERS and e["value"] in ORDERS and abs(e["value"] - v) == abs(want - v)), f"PRBS order requested {v}, emitted {e['value']}, nearest supported {want}")
    sel_arr = None if sel is None else np.atleast_1d(np.array(sel, dtype=int))
    sel_bad = bool(sel_arr is not None and (np.any(sel_arr < 1) or np.any(sel_arr > 4) or sel_arr.size > 4))
    unsupported = any(v not in ORDERS for v in req)
    # counted during the set_prbs_order call itself, never read (the wording is not part of the property)
    ctx.check("clamp.warned", (n_order_warn >= 1) == (unsupported or sel_bad) if not (sel_bad and not unsupported) else n_order_warn >= 1, f"PRBS order {order!r} on channels {sel!r}: unsupported={unsupported}, bad selection={sel_bad}, warnings during the call={n_order_warn}")
    if sel_bad and unsupported:
        ppg2, inst2 = new_driver(ctx, i % 4 == 3)
        with session(ctx, ppg2, inst2) as s2:
            ppg2.set_prbs_order(list(req), list(chans))
        ctx.check("clamp.warned", len(s2["warnings"]) >= 1, f"PRBS order {req!r} (unsupported) on the valid channels {chans}: no warning")
    with core.quiet():
        ctx.probe("set_mode.other_mode", ppg.set_mode, "pulse", sel)        # (probe: the statement names no rejection of a mode string)
    ctx.case(("misc", repr(sel)[:20], i % 4 == 3))


def data_length(rng, i):
    edges = list(range(1020, 1031)) + list(range(2044, 2053)) + list(range(3070, 3076)) + [1, 2, 3, 9, 10, 11, 99, 100, 101, 999, 1000, 1001, 1034, 1124, 2024, 2058, 1023, 1024, 1025, 2047, 2048, 2049, 3072 + 1000, 4096, 5000, 10000]
    if i % 2 == 0:
        return int(edges[(i // 2) % len(edges)])
    return int(rng.integers(1, 10001))


def w_memory(ctx, rng, i):
    ppg, inst = new_driver(ctx)
    n = data_length(rng, i)
    start = int(rng.choice([1, 1, 2, 1000, 1024, 1025, MEM - n - int(rng.integers(0, 5)), MEM - n + 1])) if n < MEM else 1
    start = max(1, start)
    sel = channel_selection(rng) if i % 3 else None
    chans = expected_channels(sel)
    per_channel = bool(rng.integers(3) == 0) and len(chans) > 1 and len(set(chans)) == len(chans)
    if per_channel:
        bits = rng.integers(0, 2, (len(chans), n))
        arg = bits if rng.integers(2) else bits.tolist()
    else:
        row = rng.integers(0, 2, n)
        bits = np.tile(row, (len(chans), 1))
        arg = [row, row.tolist(), "".join(map(str, row))][int(rng.integers(3))]
    ctx.describe(n=n, start=start, channels=sel, per_channel=per_channel, form=type(arg).__name__)
    with session(ctx, ppg, inst) as s:
        ppg.set_data(arg, start, sel)
    evs = [e for e in s["events"] if e and e["op"] == "data"]
    for ch in sorted(set(chans)):
        ce = [e for e in evs if e["ch"] == ch]
        k = chans.count(ch)
        blocks = ce[-(len(ce) // k):] if k > 1 and ce else ce
        addr_ok = bool(blocks) and blocks[0]["addr"] == start and all(b2["addr"] == b1["addr"] + b1["n"] for b1, b2 in zip(blocks, blocks[1:]))
        size_ok = all(1 <= b["n"] <= 1024 for b in blocks) and sum(b["n"] for b in blocks) == n
        ctx.check("memory.blocks", addr_ok and size_ok, f"CH{ch}: blocks {[(b['addr'], b['n']) for b in blocks][:6]} are not consecutive blocks of <= 1024 bits covering {n} bits from address {start}")
    # read back
    with session(ctx, ppg, inst) as s2:
        try:
            got = ppg.get_data(n, start, sel)
        except Exception as ex:
            ctx.check("memory.roundtrip", False, f"get_data({n}, {start}) raised {type(ex).__name__}: {ex}"[:300], n=n, multiple_of_1024=n % 1024 == 0, over_one_block=n > 1024)
            got = None
    if got is not None:
        ok = True
        try:
            for j, ch in enumerate(chans):
                last = max(jj for jj, c in enumerate(chans) if c == ch)       # a channel written twice holds its last data
                row = np.concatenate([np.ravel(b) for b in got[j]]) if isinstance(got[j], (list, tuple)) or getattr(got[j], "dtype", None) == object else np.ravel(np.asarray(got[j]))
                ok = ok and row.size == n and np.array_equal(row.astype(int), bits[last])
        except Exception:
            ok = False
        ctx.check("memory.roundtrip", ok, f"get_data({n}, {start}, {sel!r}) does not return the bits written by set_data", n=n, multiple_of_1024=n % 1024 == 0, over_one_block=n > 1024)
    ctx.case(("mem", n if n in (1, 1024, 1025, 2048) else ("edge" if i % 2 == 0 else "rand"), start > 1, per_channel, repr(type(sel).__name__)), sample=dict(n=n, start=start, channels=sel, blocks=[(e["addr"], e["n"]) for e in evs][:5]) if i < 6 else None)
    ctx.bin("data_len_vs_block", "<=1024" if n <= 1024 else ("multiple" if n % 1024 == 0 else ">1024"))


def w_memory_limits(ctx, rng, i):
    """data that would run past the end of the pattern memory: truncated with a warning, never an out-of-memory block."""
    ppg, inst = new_driver(ctx)
    n = int(rng.integers(2, 3000))
    start = MEM - int(rng.integers(0, n))
    row = rng.integers(0, 2, n)
    ctx.describe(n=n, start=start)
    with session(ctx, ppg, inst) as s:
        ppg.set_data(row, start, 1)
    evs = [e for e in s["events"] if e and e["op"] == "data"]
    keep = MEM - start + 1
    ctx.check("memory.blocks", sum(e["n"] for e in evs) == min(n, keep) and bool(s["warnings"]) == (n > keep), f"data of {n} bits at address {start}: wrote {sum(e['n'] for e in evs)} bits, warnings {len(s['warnings'])}")
    # per-channel (2-D) data: the limit applies to the pattern length of each channel, not to the number of channels
    nb = int(rng.integers(1, 6))
    st = MEM - nb + 1 - int(rng.integers(0, 2)) * int(rng.integers(0, 3))
    rows = rng.integers(0, 2, (4, nb + int(rng.integers(0, 4))))
    with session(ctx, ppg, inst) as s3:
        ppg.set_data(rows if rng.integers(2) else rows.tolist(), st, None)
    ev3 = [e for e in s3["events"] if e and e["op"] == "data"]
    fit = min(rows.shape[1], MEM - st + 1)
    ctx.check("memory.blocks", sorted(e["ch"] for e in ev3) == [1, 2, 3, 4] and all(e["addr"] == st and e["n"] == fit for e in ev3) and bool(s3["warnings"]) == (rows.shape[1] > fit),
              f"per-channel data of {rows.shape[1]} bits at address {st}: blocks {[(e['ch'], e['addr'], e['n']) for e in ev3]}, expected {fit} bits on each of 4 channels; warnings {len(s3['warnings'])}")
    if not any(e.get("bad") for e in ev3):
        with session(ctx, ppg, inst) as s4:
            got = ppg.get_data(fit, st, None)
        ok = True
        try:
            ok = all(np.array_equal(np.ravel(np.asarray(got[j])).astype(int), rows[j, :fit]) for j in range(4))
        except Exception:
            ok = False
        ctx.check("memory.roundtrip", ok, f"per-channel data near the end of the memory ({fit} bits at {st}) does not read back")
    with session(ctx, ppg, inst) as s2:
        ppg.get_data(int(rng.integers(1, 2000)), int(rng.choice([0, -3, MEM + 5, MEM, 1])), 2)
        ppg.get_data(int(rng.choice([0, -1, MEM + 10])), 1, 3)
    ctx.case(("memlim", n > keep))


def w_history(ctx, rng, i):
    """random history of 50 driver operations (incl. __call__/config): only the online trace checker decides."""
    dry = i % 3 == 2
    ppg, inst = new_driver(ctx, dry)
    ops = []
    with session(ctx, ppg, inst) as s:
        for _ in range(50):
            sel = channel_selection(rng)
            op = int(rng.integers(10))
            try:
                if op == 0:
                    ppg.set_freq(value_near(rng, *LIMITS["freq"]))
                elif op == 1:
                    ppg.set_output_voltage(value_near(rng, *LIMITS["amp"]), sel)
                elif op == 2:
                    ppg.set_offset(value_near(rng, *LIMITS["offs"]), sel)
                elif op == 3:
                    ppg.set_skew(value_near(rng, *LIMITS["skew"]), sel)
                elif op == 4:
                    ppg.set_patt_len(value_near(rng, *LIMITS["leng"], integer=True), sel)
                elif op == 5:
                    ppg.set_data(rng.integers(0, 2, int(rng.integers(1, 2500))), int(rng.integers(1, 3000)), sel)
                elif op == 6 and not dry:
                    ppg.get_data(int(rng.integers(1, 1025)), int(rng.integers(1, 3000)), sel)
                elif op == 7:
                    (ppg if rng.integers(2) else ppg.config)(freq=value_near(rng, *LIMITS["freq"]), patt_len=value_near(rng, *LIMITS["leng"], integer=True), Vout=value_near(rng, *LIMITS["amp"]), offset=value_near(rng, *LIMITS["offs"]),
                        bsh=int(rng.integers(0, 9)), skew=value_near(rng, *LIMITS["skew"]), mode="DATA", data=rng.integers(0, 2, int(rng.integers(1, 1500))), CHs=sel)
                elif op == 8:
                    (ppg if rng.integers(2) else ppg.config)(freq=value_near(rng, *LIMITS["freq"]), mode="PRBS", order=int(rng.choice(ORDERS + [8, 12, 33])), CHs=sel)
                else:
                    ppg.set_prbs_order(int(rng.choice(ORDERS + [1, 64])), sel)
                ops.append(op)
            except Exception as ex:
                ctx.check("history.no_exception", False, f"driver operation {op} raised {type(ex).__name__}: {ex}"[:300], op=op)
    ctx.describe(ops=ops, dry_run=dry)
    ctx.check("history.emitted", len([e for e in s["events"] if e]) >= len(ops), "fewer commands than operations were emitted")
    ctx.evaluations += len(ops)
    ctx.case(("hist", dry, tuple(ops[:12])), sample=dict(dry_run=dry, ops=ops[:20], commands=len(s["events"])) if i < 3 else None)


def w_sync(ctx, rng, i):
    order = int(rng.choice([7, 9, 11]))
    sps = int(rng.choice([2, 3, 4, 8, 16, 32]))
    if order == 11 and sps > 8:
        sps = 8
    with core.quiet():
        T.gv(sps=sps, R=1e9)
        slots = D.PRBS(order, seed=int(rng.integers(1, 2 ** order))).data
    if i % 9 == 0:
        slots = rng.integers(0, 2, int(rng.integers(40, 300))).astype(np.uint8)
    w = np.kron(slots, np.ones(sps))
    l = w.size
    dsel = i % 6
    d = [0, 1, l - 1, sps, l // 2, int(rng.integers(0, l))][dsel]
    reps = int(rng.integers(2, 4))
    amp = float(rng.uniform(0.2, 3))
    off = float(rng.uniform(0, 0.3)) * amp      # non-negative records (detected voltages): SYNC's own false-positive guard assumes them
    sigma = float(rng.uniform(0, 0.2)) * amp
    # "moderate" noise: the correlation at the true delay exceeds the one at a one-sample offset by amp * (number of rising or
    # falling edges); delay 0 and delay l-1 are scored on disjoint windows, whose noise terms are independent with standard
    # deviation sigma * sqrt(2 * samples at level 1). Keep that margin at 8 standard deviations or more (for 32 samples per slot
    # this caps sigma near amp/16: a correlator cannot resolve 1/32 of a slot in more noise than that).
    edges = max(1, min(int(np.sum(np.diff(slots.astype(int)) == 1)), int(np.sum(np.diff(slots.astype(int)) == -1))))
    sigma = min(sigma, amp * edges / (8.0 * np.sqrt(2.0 * max(1.0, float(w.sum())))))
    variant = i % 2
    ntot = reps * l + int(rng.integers(0, l))
    if variant == 0:      # the repeated waveform, cyclically delayed by d
        rx = w[(np.arange(ntot) - d) % l]
    else:                 # d samples of idle level, then the repeated waveform
        rx = np.concatenate([np.zeros(d), np.tile(w, reps + 1)])[:ntot]
        if d > 0 and rng.integers(2):
            rx[:d] = w[(np.arange(d) - d) % l]
    rx = off + amp * rx + sigma * rng.normal(0, 1, ntot)
    form = int(rng.integers(3))
    ctx.describe(order=order, sps=sps, l=l, d=d, reps=reps, sigma=sigma, amp=amp, off=off, variant=variant, form=form)
    keep = rx.copy()
    try:
        with core.quiet():
            if form == 0:
                out, idx = L.SYNC(T.electrical_signal(rx), T.binary_sequence(slots))
            elif form == 1:
                out, idx = L.SYNC(rx, slots, sps)
            else:
                out, idx = L.SYNC(T.electrical_signal(rx), slots)
    except Exception as ex:
        ctx.check("sync.index", False, f"SYNC raised {type(ex).__name__}: {ex} (delay d={d}, pattern of {l} samples)"[:300], d=d, zero_delay=d == 0)
        out = None
    if out is not None:
        ctx.check("sync.index", int(idx) == d, f"SYNC returned index {idx}, the waveform is delayed by d={d} samples (pattern {l} samples)", d=d, zero_delay=d == 0)
        ok = isinstance(out, T.electrical_signal) and out.len() >= 1 and np.array_equal(out.signal, keep[int(idx): int(idx) + out.len()])
        ctx.check("sync.signal", ok, f"returned signal does not start at sample {idx} of the received record", d=d)
    ctx.check("input_unchanged", np.array_equal(rx, keep), "SYNC modified the received record")
    if i % 10 == 0:
        with core.quiet():
            ctx.raises("sync.short", (BufferError, ValueError), L.SYNC, rx[: l - int(rng.integers(1, l // 2))], slots, sps)
            # (only the short record is a rejection the statement names; a SYNC that accepts lists or a missing sps is not judged —
            # false alarm on refactoring R13-C20)
            for nm, args in (("no_sps", (rx, slots)), ("list_input", (rx.tolist(), slots, sps))):
                try:
                    L.SYNC(*args)
                    ctx.bin("sync.other_forms", f"{nm}: accepted")
                except (ValueError, TypeError) as e:
                    ctx.bin("sync.other_forms", f"{nm}: {type(e).__name__}")
    ctx.case(("sync", order, sps, dsel, variant, form), sample=dict(order=order, sps=sps, pattern_samples=l, d=d, sigma=sigma, index=None if out is None else int(idx)) if i < 6 else None)
    ctx.bin("sync.delay_class", ["0", "1", "l-1", "sps", "l/2", "random"][dsel])


def FORM_TWINS():
    import opticomlib.lab as lab
    return [(lab, ["SYNC"])]


WORKLOADS = [
    Workload("setters", w_setters, 1500, 100000),
    Workload("misc_commands", w_misc_commands, 200, 10000),
    Workload("memory", w_memory, 160, 8000, budget=120),
    Workload("memory_limits", w_memory_limits, 60, 2000, budget=120),
    Workload("history", w_history, 24, 2000, budget=120),
    Workload("sync", w_sync, 240, 12000, budget=60),
]


def classify(v):
    return None
