"""C02 — time/frequency transforms are exact inverses on the sampling-rate FFT grid."""
import numpy as np
from numpy.fft import fft, ifft, fftfreq, fftshift, ifftshift

from .. import core
from ..run import Workload

RULE = ("lengths {1,2,3,4,5,7,8,9,16,17,31,64,97,127,128,1023,1024,4099} (odd/prime lengths dominate: fftshift==ifftshift on even "
        "lengths hides a swapped shift), real/complex dtypes, electrical / optical 1-pol / optical 2-pol with different rows, noise "
        "on/off, both shift flags, gv reconfigured between calls (sps, R, fs forms). Non-trivial: length >= 3 and not all samples "
        "equal; distinct by (class, n_pol, length, dtype, noise, shift, gv form).")
ASSUMPTIONS = ["numpy.fft is the trusted reference; comparisons at rtol 1e-9 of the row's max magnitude"]
MIN_CHECKS = {"call.post": 500, "roundtrip": 200, "w.post": 200, "power.post": 200, "shift.recover": 100}
LENGTHS = [1, 2, 3, 4, 5, 7, 8, 9, 16, 17, 31, 64, 97, 127, 128, 1023, 1024, 4099]

T = None


def rows_close(a, b, rtol=1e-9):
    a, b = np.asarray(a), np.asarray(b)
    if a.shape != b.shape:
        return False
    scale = max(float(np.max(np.abs(b))) if b.size else 0.0, 1e-300)
    return bool(np.all(np.abs(a - b) <= rtol * scale))


def setup(ctx):
    global T
    import opticomlib.typing as ty
    T = ty

    def call_post(orig):
        def wrapper(self, domain, shift=False):
            r = orig(self, domain, shift)
            if core.in_monitor():
                return r
            with core.monitor_scope():
                if domain not in ("w", "f", "t"):        # a spelling the statement does not name ('W', ' t '): whatever it means, the property is silent
                    ctx.bin("call.other_domain_spelling", repr(domain))
                    return r
                ctx.call("call.post")
                f = fft if domain in ("w", "f") else ifft
                sh = (lambda z: fftshift(z, axes=-1)) if domain in ("w", "f") else (lambda z: ifftshift(z, axes=-1))
                ws = f(self.signal, axis=-1)
                wn = f(self.noise, axis=-1) if self.noise is not None else None
                if shift:
                    ws = sh(ws)
                    wn = sh(wn) if wn is not None else None
                # at 1e-12 of the spectrum's scale (the library calls the same FFT): a quadrature 1e-9 below the other one is data, not rounding noise
                def q_close(u, v):
                    return rows_close(u, v, 1e-12)
                ok = type(r) is type(self) and q_close(r.signal, ws) and ((r.noise is None) == (wn is None)) and (wn is None or q_close(r.noise, wn))
                ok = ok and getattr(r, "n_pol", None) == getattr(self, "n_pol", None) and r.len() == self.len()
                ctx.check("call.post", ok, f"x({domain!r}, shift={shift}) is not the row-wise {'fft' if f is fft else 'ifft'} of signal and noise "
                                           f"({type(self).__name__}, shape {self.signal.shape}, noise={'yes' if self.noise is not None else 'no'})")
            return r
        return wrapper

    def w_post(orig):
        def wrapper(self, shift=False):
            r = orig(self, shift)
            if core.in_monitor():
                return r
            with core.monitor_scope():
                ctx.call("w.post")
                want = 2 * np.pi * fftfreq(self.len()) * T.gv.fs
                if shift:
                    want = fftshift(want)
                ctx.check("w.post", np.shape(r) == want.shape and np.allclose(r, want, rtol=1e-12, atol=0), f"w(shift={shift}) != 2*pi*fftfreq({self.len()})*fs (fs={T.gv.fs!r})")
            return r
        return wrapper

    def power_post(orig):
        def wrapper(self, by="all"):
            r = orig(self, by)
            if core.in_monitor():
                return r
            with core.monitor_scope():
                ctx.call("power.post")
                tot = {"all": self.signal + (self.noise if self.noise is not None else 0), "signal": self.signal,
                       "noise": self.noise if self.noise is not None else np.zeros_like(self.signal)}.get(str(by).lower())
                if tot is not None:
                    want = np.mean(np.abs(tot) ** 2, axis=-1)
                    ctx.check("power.post", np.shape(r) == np.shape(want) and np.allclose(r, want, rtol=1e-12, atol=0), f"power({by!r}) != mean|.|^2 per polarisation: {core.jsonable(r)} vs {core.jsonable(want)}")
            return r
        return wrapper

    core.attach_method(ty.electrical_signal, "__call__", call_post)
    core.attach_method(ty.electrical_signal, "w", w_post)
    core.attach_method(ty.electrical_signal, "power", power_post)


def configure_gv(rng):
    form = int(rng.integers(6))
    sps = int(rng.choice([2, 3, 4, 8, 16, 17, 32, 64, 128]))
    R = float(rng.choice([1e6, 1e8, 1e9, 2.5e9, 1e10, 4e10, 1e11]))
    with core.quiet():
        if form == 0:
            T.gv(sps=sps, R=R)
        elif form == 1:
            T.gv(sps=sps, fs=R * sps)
        elif form == 2:
            T.gv(R=R, fs=R * sps)
        elif form == 3:
            T.gv(fs=T.gv.R * sps)
        elif form == 4:
            T.gv(sps=sps)
        else:   # sampling rate that is not an integer multiple of the slot rate: w() must still follow gv.fs
            T.gv(R=R, fs=R * (sps + float(rng.choice([0.3, -0.4, 0.25]))))
    return form


def make(rng, cls, n, dtype, noise):
    def arr(shape):
        a = rng.normal(0, 1, shape)
        if dtype == "complex":
            q = rng.normal(0, 1, shape)
            if rng.integers(5) == 0:         # one quadrature far below the other (a carrier with a 1e-9 rad phase modulation): it is data, not rounding noise
                q = q * 10 ** rng.uniform(-11, -8.5)
                if rng.integers(2):
                    a, q = q, a
            a = a + 1j * q
        elif dtype == "int":
            a = rng.integers(-9, 10, shape)
        return a * (1 if dtype == "int" else 10 ** rng.uniform(-3, 3))
    shape = (2, n) if cls == "opt2" else (n,)
    s = core.degenerate_rows(rng, arr(shape), every=7)
    nz = core.degenerate_rows(rng, arr(shape), every=3) if noise else None      # noise in one polarisation only, identical noise rows, all-zero noise arrays
    if cls == "el":
        return T.electrical_signal(s, nz)
    return T.optical_signal(s, nz)


def w_transform(ctx, rng, i):
    n = LENGTHS[i % len(LENGTHS)]
    cls = ["el", "opt1", "opt2"][(i // len(LENGTHS)) % 3]
    dtype = ["complex", "float", "int"][int(rng.integers(3))]
    noise = bool(rng.integers(2))
    gform = configure_gv(rng)
    x = make(rng, cls, n, dtype, noise)
    ctx.describe(cls=cls, n=n, dtype=dtype, noise=noise, gv_form=gform, fs=T.gv.fs)
    tot = x.signal + (x.noise if noise else 0)
    with core.quiet():
        for dom in ("w", "f"):
            X = x(dom)                       # call.post decides the values
            Xs = x(dom, shift=True)
            ctx.check("shift.recover", rows_close(ifftshift(Xs.signal, axes=-1), X.signal) and (not noise or rows_close(ifftshift(Xs.noise, axes=-1), X.noise)),
                      f"ifftshift(x({dom!r},shift=True)) != x({dom!r}) for length {n}")
            ctx.check("shift.multiset", np.allclose(np.sort_complex(np.ravel(Xs.signal[-1] if cls == "opt2" else Xs.signal)), np.sort_complex(np.ravel(X.signal[-1] if cls == "opt2" else X.signal)), rtol=1e-9, atol=1e-12 * (np.abs(X.signal).max() + 1e-300)),
                      "shift=True changed the set of values")
        xt = x("t")
        xts = x("t", shift=True)
        ctx.check("shift.recover", rows_close(fftshift(xts.signal, axes=-1), xt.signal) and (not noise or rows_close(fftshift(xts.noise, axes=-1), xt.noise)),
                  f"fftshift(x('t',shift=True)) != x('t') for length {n}")
        back = x("w")("t")
        ctx.check("roundtrip", rows_close(back.signal, x.signal) and (not noise or rows_close(back.noise, x.noise)) and type(back) is type(x) and back.len() == n, f"x('w')('t') != x (length {n})")
        back2 = x("t")("f")
        ctx.check("roundtrip", rows_close(back2.signal, x.signal) and (not noise or rows_close(back2.noise, x.noise)), f"x('t')('f') != x (length {n})")
        back3 = x("w", shift=True)
        back3 = type(x)(ifftshift(back3.signal, axes=-1), None if not noise else ifftshift(back3.noise, axes=-1))("t")
        ctx.check("roundtrip", rows_close(back3.signal, x.signal), "ifft(ifftshift(x('w',shift=True))) != x")
        # Parseval per polarisation (signal and noise separately, and the total field)
        X = x("w")
        for name, a, A in (("signal", x.signal, X.signal), ("noise", x.noise, X.noise)):
            if a is None:
                continue
            e_t = np.sum(np.abs(a) ** 2, axis=-1)
            e_w = np.sum(np.abs(A) ** 2, axis=-1)
            ctx.check("parseval", np.allclose(e_w, n * e_t, rtol=1e-9, atol=0), f"sum|X|^2 != N*sum|x|^2 for {name}: {core.jsonable(e_w)} vs {core.jsonable(n * e_t)}")
        # axis and power (postconditions decide)
        w0, w1 = x.w(), x.w(shift=True)
        ctx.check("w.relations", np.array_equal(fftshift(w0), w1) and w0.size == n and (n < 3 or np.isclose(w0[1] - w0[0], 2 * np.pi * T.gv.fs / n, rtol=1e-12)), "w() grid relations broken")
        p = x.power()
        ctx.check("power.relations", np.allclose(p, np.mean(np.abs(tot) ** 2, axis=-1), rtol=1e-12) and np.shape(p) == ((2,) if cls == "opt2" else ()), "power() != mean|signal+noise|^2 per polarisation")
        x.power("signal"), x.power("noise")
        # the axis follows a later reconfiguration of gv
        old_fs = T.gv.fs
        configure_gv(rng)
        x.w()
        if T.gv.fs != old_fs:
            ctx.check("w.relations", not np.allclose(x.w()[1:], w0[1:]) if n > 1 else True, "w() did not follow the reconfigured sampling rate")
    nontriv = n >= 3 and not np.all(x.signal == x.signal.flat[0])
    ctx.case(("tr", cls, n, dtype, noise, gform), nontrivial=nontriv, sample={"class": cls, "length": n, "dtype": dtype, "noise": noise, "fs": old_fs} if i < 5 else None)
    ctx.bin("length_parity", "odd" if n % 2 else "even")
    ctx.bin("class", cls)


def w_fresh(ctx, rng, i):
    """a signal object owns its samples, and so does everything it returns: editing the array it was built from, or a copy / slice /
    transform of it, in place must not change what a LATER transform, Parseval sum or power() of the same object gives (the first
    results being right says nothing about that)."""
    cls = ["el", "opt1", "opt2"][i % 3]
    n = int(rng.choice([2, 5, 16, 33]))
    dtype = ["complex", "float", "int"][(i // 3) % 3]
    noise = bool((i // 9) % 2)
    give_dtype = bool((i // 18) % 2)
    shape = (2, n) if cls == "opt2" else (n,)

    def arr():
        if dtype == "int":
            return rng.integers(-9, 10, shape)
        a = rng.normal(0, 1, shape)
        return a + 1j * rng.normal(0, 1, shape) if dtype == "complex" else a
    src, nsrc = arr(), (arr() if noise else None)
    kw = {"dtype": src.dtype} if give_dtype else {}
    ctx.describe(cls=cls, n=n, dtype=dtype, noise=noise, dtype_given=give_dtype)
    with core.quiet():
        x = T.electrical_signal(src, nsrc, **kw) if cls == "el" else T.optical_signal(src, nsrc, **kw)
        own = [a for a in (x.signal, x.noise) if a is not None]
        ctx.check("fresh", not any(np.shares_memory(a, b) for a in own for b in (src, nsrc) if b is not None), "the object keeps (a view of) the array it was built from")
        ref = {"w": core.digest(x("w").signal), "ws": core.digest(x("w", shift=True).signal), "t": core.digest(x("t").signal), "p": core.digest(x.power())}
        derived = {"copy()": x.copy(), "slice [:]": x[:], "slice [1:]": x[1:], "x('w')": x("w"), "x('t')": x("t"), "x('w',shift)": x("w", shift=True)}
        for name, d in derived.items():
            darr = [a for a in (d.signal, d.noise) if a is not None]
            ctx.check("fresh", not any(np.shares_memory(a, b) for a in darr for b in own), f"{name} returns (a view of) the samples of the object it came from")
            for a in darr:                      # edit the derived object in place ...
                a[...] = 0
        src[...] = 0                            # ... and the source arrays
        if nsrc is not None:
            nsrc[...] = 0
        now = {"w": core.digest(x("w").signal), "ws": core.digest(x("w", shift=True).signal), "t": core.digest(x("t").signal), "p": core.digest(x.power())}
    ctx.check("fresh", now == ref, f"transforms / power() of the object changed after its source array, copies, slices or transforms were edited in place: {[k for k in ref if ref[k] != now[k]]}")
    ctx.case(("fresh", cls, n, dtype, noise, give_dtype), sample=dict(cls=cls, n=n, dtype=dtype, noise=noise) if i < 2 else None)


def w_gv_axes(ctx, rng, i):
    """gv configured WITH a slot count (it then holds its own t/w axes), a signal of exactly N*sps samples, then the rate is changed
    with the same sps and N omitted: w() must follow the sampling rate now in force."""
    sps = int(rng.choice([2, 4, 8, 16]))
    N = int(rng.choice([5, 10, 16, 33]))
    R1, R2 = (float(v) for v in rng.choice([1e9, 2.5e9, 1e10, 2e10, 4e10], 2, replace=False))
    n = int([N * sps, N * sps, N * sps // 2 + 1, 3 * N * sps + 1, N * sps + 1][(i // 3) % 5])   # records as long as, shorter and longer than the N*sps points of gv.t
    cls = ["el", "opt1", "opt2"][i % 3]
    x = make(rng, cls, n, "complex", bool(rng.integers(2)))
    x.signal[..., n // 2:] *= 3.0                   # a non-constant envelope: a statistic taken over part of the record differs
    ctx.describe(sps=sps, N=N, n=n, R_sequence=[R1, R2], cls=cls)
    with core.quiet():
        T.gv(sps=sps, R=R1, N=N)
        x.w(), x.w(shift=True)                      # w.post decides
        # nothing a signal computes about itself may depend on the slot count held by gv (postconditions decide)
        x.power(), x.power("signal"), x.power("noise")
        x("w"), x("w", shift=True), x("t"), x("f")
        form = int(rng.integers(3))
        if form == 0:
            T.gv(sps=sps, R=R2)
        elif form == 1:
            T.gv(sps=sps, fs=R2 * sps)
        else:
            T.gv(R=R2, fs=R2 * sps)
        x.w(), x.w(shift=True)
        X = x("w", shift=True)
        ctx.check("w.relations", np.isclose(x.w(shift=True)[n // 2 + 1] - x.w(shift=True)[n // 2], 2 * np.pi * R2 * sps / n, rtol=1e-12) if n > 2 else True, "w() pitch does not follow the reconfigured rate")
        T.gv.clean()
    ctx.case(("gvaxes", sps, N, R1, R2, cls, form), sample=dict(sps=sps, N=N, R_sequence=[R1, R2]) if i < 2 else None)


def w_errors(ctx, rng, i):
    x = make(rng, ["el", "opt1", "opt2"][i % 3], 8, "complex", True)
    # The statement has no rejection clause: what happens for other `domain` / `by` strings is observed (coverage bins), not judged —
    # a library that starts accepting 'W' or ' t ' changes nothing the property describes (false alarm on refactoring R13-C02).
    with core.quiet():
        for what, fn, arg in (("domain", x, str(rng.choice(["x", "time", "", "W", "T"]))), ("power", x.power, "both")):
            try:
                fn(arg)
                ctx.bin(f"{what}.other_string", f"{arg!r} accepted")
            except (ValueError, TypeError, KeyError) as e:
                ctx.bin(f"{what}.other_string", f"{arg!r} -> {type(e).__name__}")
    ctx.case(("err", i % 3))


def w_devices_use(ctx, rng, i):
    """devices that transform internally (DM) trip the same postconditions."""
    import opticomlib.devices as dv
    configure_gv(rng)
    n = int(rng.choice([17, 64, 255]))
    x = make(rng, ["opt1", "opt2"][i % 2], n, "complex", False)
    before = ctx.counters["call.post"]["checks"]
    with core.quiet():
        dv.DM(x, float(rng.uniform(-100, 100)))
    ctx.check("attach.reached", ctx.counters["call.post"]["checks"] >= before + 2, "transform postcondition did not fire inside DM")
    ctx.case(("dev", i % 2, n))


WORKLOADS = [
    Workload("transform", w_transform, 1600, 160000),
    Workload("gv_axes", w_gv_axes, 200, 10000),
    Workload("fresh", w_fresh, 108, 4320),
    Workload("errors", w_errors, 12, 120),
    Workload("devices_use", w_devices_use, 20, 400),
    Workload("repo_tests", lambda ctx, rng, i: core.run_repo_tests(ctx), 1, 1, budget=1800, tiers=("thorough",)),
]


def classify(v):
    return None
