"""C12 — PPM encode/decode is a bijection on whole symbols; HDD/SDD emit valid codewords."""
import itertools

import numpy as np

from .. import core
from ..run import Workload

RULE = ("exhaustive: every bit string of length 1..12 x M in {2..256} x 5 container forms (encoder/decoder round trip); every slot "
        "pattern of up to 12 (quick) / 16 (thorough) slots for M in {2,4,8} under 4 numpy seeds (HDD); random long sequences; SDD on "
        "NRZ/RZ/Gaussian waveforms, sps 2..64, with noise and deliberate ties. Postconditions also fire inside ppm.DSP. "
        "Non-trivial: at least one whole symbol; distinct by (M, bits/pattern, form, seed).")
ASSUMPTIONS = ["Gaussian waveforms: identity clause asserted for pulse width T <= sps (wider pulses overlap neighbouring slots by construction)",
               "'integrated energy' of a slot = sum over the slot of signal+noise (the detected voltage is proportional to optical power)",
               "M = 1 is outside the quantifier (M in {2,4,...,256})"]
SHARDS = {"quick": 4}
MIN_CHECKS = {"enc.post": 2000, "dec.post": 2000, "hdd.post": 2000, "sdd.post": 100, "roundtrip": 2000}

Pm = None
T = None
MS = [2, 4, 8, 16, 32, 64, 128, 256]


def as_bits(x):
    if isinstance(x, T.binary_sequence):
        return x.data.astype(np.uint8)
    if isinstance(x, str):
        return np.array([int(c) for c in x if c in "01"], dtype=np.uint8)
    return np.array(x).astype(bool).astype(np.uint8)


def valid_seq(r):
    return isinstance(r, T.binary_sequence) and isinstance(r.data, np.ndarray) and r.data.ndim == 1 and r.data.dtype == np.uint8 and bool(np.all(r.data <= 1))


def setup(ctx):
    global Pm, T
    import opticomlib.ppm as ppm
    import opticomlib.typing as typing_
    Pm, T = ppm, typing_

    def enc_post(orig):
        def wrapper(input, M, *a, **k):
            r = orig(input, M, *a, **k)
            if core.in_monitor():
                return r
            with core.monitor_scope():
                ctx.call("enc.post")
                b = as_bits(input)
                kbits = int(round(np.log2(M)))
                if 2 ** kbits != M or kbits < 1:
                    return r   # unspecified for non powers of two
                nsym = b.size // kbits
                ok = valid_seq(r) and r.data.size == nsym * M
                if ok and nsym:
                    blocks = r.data.reshape(nsym, M)
                    vals = b[:nsym * kbits].reshape(nsym, kbits).astype(np.int64) @ (2 ** np.arange(kbits - 1, -1, -1, dtype=np.int64))
                    ok = bool(np.all(blocks.sum(axis=1) == 1)) and bool(np.all(blocks.argmax(axis=1) == vals))
                ctx.check("enc.post", ok, f"PPM_ENCODER(M={M}) output is not one ON slot per block at the big-endian value", bits=b, out=getattr(r, "data", None))
            return r
        return wrapper

    def dec_post(orig):
        def wrapper(input, M, *a, **k):
            r = orig(input, M, *a, **k)
            if core.in_monitor():
                return r
            with core.monitor_scope():
                ctx.call("dec.post")
                s = as_bits(input)
                kbits = int(round(np.log2(M)))
                if 2 ** kbits != M or kbits < 1 or s.size % M:
                    return r
                blocks = s.reshape(-1, M)
                if not np.all(blocks.sum(axis=1) == 1):
                    return r   # decoder contract is stated for valid codewords
                pos = blocks.argmax(axis=1)
                want = ((pos[:, None] >> np.arange(kbits - 1, -1, -1)) & 1).astype(np.uint8).ravel()
                ctx.check("dec.post", valid_seq(r) and np.array_equal(r.data, want), f"PPM_DECODER(M={M}) is not the big-endian expansion of the ON positions", slots=s, out=getattr(r, "data", None), want=want)
            return r
        return wrapper

    def hdd_post(orig):
        def wrapper(input, M, *a, **k):
            r = orig(input, M, *a, **k)
            if core.in_monitor():
                return r
            with core.monitor_scope():
                ctx.call("hdd.post")
                s = as_bits(input)
                if M < 1 or s.size % M:
                    # (the monitor must not raise here itself: a ValueError of its own would look like the documented rejection)
                    ctx.check("hdd.post", False, f"HDD returned a result for {s.size} slots, which is not a whole number of {M}-slot symbols (ValueError expected)")
                    return r
                blocks = s.reshape(-1, M)
                ok = valid_seq(r) and r.data.size == s.size
                msg = "HDD output has the wrong type/length"
                if ok:
                    out = r.data.reshape(-1, M)
                    cnt = blocks.sum(axis=1)
                    if not np.all(out.sum(axis=1) == 1):
                        ok, msg = False, "HDD output symbol without exactly one ON slot"
                    elif not np.array_equal(out[cnt == 1], blocks[cnt == 1]):
                        ok, msg = False, "HDD changed a symbol that already had exactly one ON slot"
                    elif np.any((out[cnt > 1] == 1) & (blocks[cnt > 1] == 0)):
                        ok, msg = False, "HDD kept a slot that was not ON in a multi-ON symbol"
                ctx.check("hdd.post", ok, msg, M=M, slots=s, out=getattr(r, "data", None))
            return r
        return wrapper

    def sdd_post(orig):
        def wrapper(input, M, *a, **k):
            r = orig(input, M, *a, **k)
            if core.in_monitor():
                return r
            with core.monitor_scope():
                ctx.call("sdd.post")
                if isinstance(input, T.electrical_signal):
                    x = input.signal + (input.noise if input.noise is not None else 0)
                else:
                    x = np.array(input)
                sps = T.gv.sps
                e = np.real(x).reshape(-1, sps).sum(axis=1).reshape(-1, M)
                ok = valid_seq(r) and r.data.size == e.size
                msg = "SDD output has the wrong type/length"
                if ok:
                    out = r.data.reshape(-1, M)
                    if not np.all(out.sum(axis=1) == 1):
                        ok, msg = False, "SDD output symbol without exactly one ON slot"
                    else:
                        chosen = e[np.arange(e.shape[0]), out.argmax(axis=1)]
                        mx = e.max(axis=1)
                        # rounding of a slot sum is relative to the samples of THAT symbol (no absolute floor: a symbol at 1e-12 V next to one at 1e6 V still has a largest slot)
                        tol = 1e-12 * np.abs(np.real(x)).reshape(-1, sps).sum(axis=1).reshape(-1, M).max(axis=1)
                        if not np.all(chosen >= mx - tol):
                            ok, msg = False, "SDD did not turn ON the slot of largest integrated energy"
                ctx.check("sdd.post", ok, msg, M=M, sps=sps, out=getattr(r, "data", None))
            return r
        return wrapper

    core.attach(ppm, "PPM_ENCODER", enc_post)
    core.attach(ppm, "PPM_DECODER", dec_post)
    core.attach(ppm, "HDD", hdd_post)
    core.attach(ppm, "SDD", sdd_post)


FORMS = ["str", "list", "tuple", "ndarray", "bs", "str_groups", "str_comma"]


def render(bits, form):
    b = [int(v) for v in bits]
    if form == "str_groups":       # '01 10 11': separators between groups of bits
        s_ = "".join(map(str, b))
        return " ".join(s_[j:j + 2] for j in range(0, len(s_), 2))
    if form == "str_comma":
        return ",".join(map(str, b))
    return {"str": lambda: "".join(map(str, b)), "list": lambda: b, "tuple": lambda: tuple(b), "ndarray": lambda: np.array(b), "bs": lambda: T.binary_sequence(b)}[form]()


def w_roundtrip_exhaustive(ctx, rng, i):
    """index enumerates (length, chunk of 256 strings); all strings x all M x all forms."""
    L, chunk = RT_INDEX[i]
    ctx.describe(length=L, chunk=chunk)
    for v in range(chunk * 256, min(2 ** L, (chunk + 1) * 256)):
        bits = tuple((v >> np.arange(L - 1, -1, -1)) & 1)
        b = np.array(bits, dtype=np.uint8)
        for M in MS:
            k = int(np.log2(M))
            ref = None
            for form in FORMS:
                with core.quiet():
                    enc = Pm.PPM_ENCODER(render(bits, form), M)
                    if ref is None:
                        ref = enc.data.copy()
                        dec = Pm.PPM_DECODER(enc, M)
                        ok = np.array_equal(dec.data, b[: L // k * k]) and len(dec) == L // k * k
                        if not ok:
                            ctx.check("roundtrip", False, f"PPM_DECODER(PPM_ENCODER(b,{M})) != b truncated", bits=b, dec=dec.data)
                        else:
                            ctx.counters["roundtrip"]["checks"] += 1
                    elif not np.array_equal(enc.data, ref):
                        ctx.check("enc.forms", False, f"PPM_ENCODER gives a different result for container form {form}", bits=b, M=M)
                    else:
                        ctx.counters["enc.forms"]["checks"] += 1
                ctx.evaluations += 1
            # decoder accepts the same container forms
            if L >= k:
                for form in ("str", "list", "ndarray", "str_groups"):
                    with core.quiet():
                        d2 = Pm.PPM_DECODER(render(ref, form), M)
                    if not np.array_equal(d2.data, b[: L // k * k]):
                        ctx.check("dec.forms", False, f"PPM_DECODER differs for container form {form}", bits=b, M=M)
                    else:
                        ctx.counters["dec.forms"]["checks"] += 1
        if L >= 2:
            ctx.sigs.add(repr(("rt", bits)))
    ctx.case(("roundtrip", L, chunk), sample={"length": L, "chunk_of_256": chunk, "M": MS, "forms": FORMS})


RT_INDEX = [(L, c) for L in range(1, 13) for c in range((2 ** L + 255) // 256)]


def hdd_scope(tier):
    out = []
    top = 12 if tier == "quick" else 16
    for M in (2, 4, 8):
        for n in range(M, top + 1, M):
            out.append((M, n))
    return out


def w_hdd_exhaustive(ctx, rng, i):
    scope = hdd_scope(ctx.tier)
    M, n = scope[i % len(scope)]
    seed = i // len(scope)
    ctx.describe(M=M, slots=n, numpy_seed=seed)
    np.random.seed(seed)
    pats = ((np.arange(2 ** n)[:, None] >> np.arange(n - 1, -1, -1)) & 1).astype(np.uint8)
    form_cycle = ["ndarray", "list", "bs", "str", "tuple"]
    for j, p in enumerate(pats):
        with core.quiet():
            r = Pm.HDD(render(p, form_cycle[j % 5]) if n <= 8 else p, M)   # the attached postcondition decides
        # identity on valid codewords
        if np.all(p.reshape(-1, M).sum(axis=1) == 1):
            if not np.array_equal(r.data, p):
                ctx.check("hdd.identity", False, "HDD is not the identity on a valid codeword", M=M, slots=p)
            else:
                ctx.counters["hdd.identity"]["checks"] += 1
    ctx.evaluations += len(pats)
    ctx.case(("hdd", M, n, seed), sample={"M": M, "slots": n, "patterns": int(2 ** n), "numpy_seed": seed})
    for j in range(0, len(pats), max(1, len(pats) // 64)):
        ctx.sigs.add(repr(("hddp", M, n, seed, j)))


def w_rejects(ctx, rng, i):
    bad_M = int(rng.choice([3, 5, 6, 7, 9, 10, 12, 15, 24, 100]))
    M = int(rng.choice([2, 4, 8, 16]))
    T.gv(sps=int(rng.choice([2, 4, 8])), R=1e9)
    sps = T.gv.sps
    nsym = int(rng.integers(1, 6))
    slots = rng.integers(0, 2, nsym * M)
    extra = int(rng.integers(1, M))
    ctx.describe(bad_M=bad_M, M=M, nsym=nsym, extra=extra, sps=sps)
    with core.quiet():
        ctx.raises("rejects", ValueError, Pm.HDD, slots[: nsym * M // bad_M * bad_M] if False else rng.integers(0, 2, bad_M * nsym), bad_M)
        ctx.raises("rejects", ValueError, Pm.HDD, np.concatenate([slots, rng.integers(0, 2, extra)]), M)
        # ... also when every whole symbol is already a valid codeword (nothing to repair), in every container, for every order; the
        # surplus slots are all 0, all 1 or random
        Mv = int(MS[int(rng.integers(len(MS)))])
        kv = int(np.log2(Mv))
        cw = as_bits(Pm.PPM_ENCODER(rng.integers(0, 2, kv * int(rng.integers(1, 5))), Mv))
        ex = int(rng.integers(1, Mv))
        tail = [np.zeros(ex, np.uint8), np.ones(ex, np.uint8), rng.integers(0, 2, ex).astype(np.uint8)][int(rng.integers(3))]
        ragged = np.concatenate([cw, tail])
        ctx.raises("rejects", ValueError, Pm.HDD, render(ragged, FORMS[int(rng.integers(len(FORMS)))]), Mv)
        ctx.raises("rejects", ValueError, Pm.SDD, np.kron(ragged, np.ones(sps)), Mv)
        ctx.raises("rejects", ValueError, Pm.SDD, rng.normal(0, 1, bad_M * nsym * sps), bad_M)
        ctx.raises("rejects", ValueError, Pm.SDD, rng.normal(0, 1, nsym * M * sps + int(rng.integers(1, M * sps))), M)
        ctx.raises("rejects", ValueError, Pm.SDD, T.electrical_signal(rng.normal(0, 1, nsym * M * sps + 1)), M)
    ctx.case(("rej", bad_M, M, extra), sample={"bad_M": bad_M, "M": M, "extra_slots": extra} if i < 3 else None)


def w_random_long(ctx, rng, i):
    M = int(rng.choice(MS))
    k = int(np.log2(M))
    n = int(rng.choice([k, 2 * k + 1, 100, 1000, 10000]))
    b = rng.integers(0, 2, n).astype(np.uint8)
    form = FORMS[int(rng.integers(len(FORMS)))]
    ctx.describe(M=M, n=n, form=form)
    np.random.seed(int(rng.integers(2 ** 31)))
    with core.quiet():
        enc = Pm.PPM_ENCODER(render(b, form), M)
        dec = Pm.PPM_DECODER(enc, M)
        ctx.check("roundtrip", np.array_equal(dec.data, b[: n // k * k]), "decode(encode(b)) != b truncated", M=M, n=n)
        # HDD on a corrupted codeword: erase some symbols, add spurious ON slots
        s = enc.data.copy()
        nsym = s.size // M
        if nsym:
            er = rng.random(nsym) < 0.2
            s.reshape(nsym, M)[er] = 0
            s[rng.random(s.size) < 0.1] = 1
            sb = s.astype(bool)
            keep_u8, keep_b = s.copy(), sb.copy()
            h = Pm.HDD(s, M)
            hb = Pm.HDD(sb, M)                     # boolean ndarray: the dtype HDD converts to
            ctx.check("hdd.input_unchanged", np.array_equal(s, keep_u8) and np.array_equal(sb, keep_b) and not np.shares_memory(hb.data, sb), "HDD modified (or aliased) its input array")
            h2 = Pm.HDD(h, M)
            ctx.check("hdd.identity", np.array_equal(h2.data, h.data), "HDD not idempotent on its own (valid) output")
            ctx.check("hdd.identity", np.array_equal(Pm.HDD(enc, M).data, enc.data), "HDD not identity on encoder output")
    ctx.case(("long", M, n, form), nontrivial=n >= k, sample={"M": M, "bits": n, "form": form} if i < 3 else None)
    ctx.bin("M", M)


def w_hdd_extremes(ctx, rng, i):
    """symbols with an extreme number of ON slots for every order up to 256: none, one, two, half, all but one and ALL of the M
    slots (the saturated symbol is where a narrow counter would wrap), mixed within one record, in every container form.
    hdd.post decides (one ON slot per symbol, among those that were ON; valid symbols unchanged)."""
    M = int(MS[i % len(MS)])
    counts = [0, 1, 2, M // 2, M - 1, M, M, 1]
    rng.shuffle(counts)
    nsym = int(rng.choice([1, 3, len(counts)]))
    rows = np.zeros((nsym, M), np.uint8)
    for r, c in enumerate(counts[:nsym]):
        rows[r, rng.choice(M, min(int(c), M), replace=False)] = 1
    if i % 7 == 0:
        rows[:] = 1                                   # an all-ones record
    s = rows.ravel()
    form = FORMS[int(rng.integers(len(FORMS)))]
    ctx.describe(M=M, on_counts=rows.sum(axis=1), form=form)
    np.random.seed(int(rng.integers(2 ** 31)))
    with core.quiet():
        h = Pm.HDD(render(s, form), M)                # hdd.post decides
        hb = Pm.HDD(s.astype(bool), M)
    for out in (h, hb):
        o = as_bits(out).reshape(nsym, M)
        ctx.check("hdd.extremes", np.all(o.sum(axis=1) == 1) and np.all(o[rows.sum(axis=1) > 0] <= rows[rows.sum(axis=1) > 0]),
                  f"HDD(M={M}) on symbols with {rows.sum(axis=1).tolist()} ON slots returned symbols with {o.sum(axis=1).tolist()} ON slots (or turned ON a slot that was OFF)")
    ctx.case(("hddx", M, tuple(sorted(rows.sum(axis=1).tolist())), form), sample={"M": M, "on_counts": rows.sum(axis=1).tolist()} if i < 2 else None)
    ctx.bin("hddx.M", M)


def w_hdd_hostile_rng(ctx, rng, i):
    """HDD's clauses hold "for all numpy seeds driving its random choices": fault injection into numpy's global RNG (core.hostile_rng:
    tail values of every distribution, first / last index, reversed permutations) while HDD runs on valid codewords, on symbols with
    several ON slots and on empty symbols. hdd.post decides: one ON slot per symbol, valid symbols unchanged, a kept slot was ON."""
    M = int(MS[i % len(MS)])
    nsym = int(rng.choice([1, 4, 32]))
    k = int(np.log2(M))
    enc = as_bits(Pm.PPM_ENCODER(rng.integers(0, 2, nsym * k), M)) if nsym * k else np.zeros(0, np.uint8)
    s = enc.copy().reshape(nsym, M)
    mode = i // len(MS) % 3
    if mode >= 1:                                    # corrupt some symbols: erase them, or add spurious ON slots
        er = rng.random(nsym) < 0.4
        s[er] = 0
        s[rng.random(s.shape) < (0.2 if mode == 1 else 0.6)] = 1
    s = s.ravel()
    g = np.random.Generator(np.random.PCG64(int(rng.integers(2 ** 31))))
    ctx.describe(M=M, nsym=nsym, mode=["valid codeword", "light corruption", "heavy corruption"][mode], on_counts=s.reshape(nsym, M).sum(axis=1)[:16])
    for rep in range(4):
        with core.quiet(), core.hostile_rng(g):
            h = Pm.HDD(s.copy() if rep % 2 else T.binary_sequence(s), M)          # hdd.post decides
        if mode == 0:
            ctx.check("hdd.identity", np.array_equal(as_bits(h), enc), f"HDD is not the identity on a valid codeword (M={M}) under an extreme numpy random stream")
    ctx.case(("hddrng", M, nsym, mode), sample=dict(M=M, nsym=nsym, mode=mode) if i < 2 else None)


def w_sdd(ctx, rng, i):
    import opticomlib.devices as dv
    sps = int(rng.choice([2, 3, 4, 5, 8, 16, 17, 32, 64]))
    T.gv(sps=sps, R=1e9)
    M = int(rng.choice([2, 4, 8, 16, 32]))
    nsym = int(rng.integers(1, 40))
    k = int(np.log2(M))
    b = rng.integers(0, 2, nsym * k).astype(np.uint8)
    shape = str(rng.choice(["nrz", "rz", "gaussian"]))
    mode = i % 4
    ctx.describe(sps=sps, M=M, nsym=nsym, shape=shape, mode=mode)
    with core.quiet():
        code = Pm.PPM_ENCODER(b, M)
        if shape == "rz" and sps < 2:
            raise core.Skip()
        kw = {}
        if shape == "gaussian":
            # pulses wider than a slot legitimately spill more energy into an OFF slot lying between two ON slots of adjacent
            # symbols than an ON slot keeps: the "identity on noiseless waveforms" clause is asserted for T <= sps only
            kw = {"T": int(rng.integers((sps + 1) // 2, (sps if mode in (0, 3) else 2 * sps) + 1)), "m": int(rng.integers(1, 4))}
        x = dv.DAC(code, Vout=float(rng.uniform(0.1, 5)), bias=float(rng.uniform(-1, 1)), pulse_shape=shape, **kw)
        if mode == 0:      # noiseless waveform of a valid codeword -> identity
            r = Pm.SDD(x, M)
            ctx.check("sdd.identity", np.array_equal(r.data, code.data), f"SDD is not the identity on the noiseless {shape} waveform of a codeword", sps=sps, M=M, T=kw.get("T"))
            r2 = Pm.SDD(x.signal, M)
            ctx.check("sdd.forms", np.array_equal(r2.data, r.data), "SDD(ndarray) != SDD(electrical_signal)")
            r3 = Pm.SDD(x.signal.tolist(), M)
            ctx.check("sdd.forms", np.array_equal(r3.data, r.data), "SDD(list) != SDD(electrical_signal)")
        elif mode == 1:    # noise in the noise component: decision must use signal+noise
            x.noise = rng.normal(0, float(rng.uniform(0.05, 3)), x.len())
            Pm.SDD(x, M)
        elif mode == 2:    # arbitrary real records
            y = rng.normal(0, 1, nsym * M * sps) * 10 ** rng.uniform(-3, 2)
            if rng.integers(2):    # a burst record: every symbol at its own level, 18 decades apart (nothing is "round-off of the record")
                y = y * np.repeat(10 ** rng.uniform(-12, 6, nsym), M * sps)
                ctx.bin("sdd.dynamic_range", "per-symbol levels")
            Pm.SDD(y if rng.integers(2) else T.electrical_signal(y), M)
        else:              # deliberate energy ties between slots
            lv = rng.integers(0, 3, nsym * M).astype(float)
            y = np.kron(lv, np.ones(sps))
            Pm.SDD(y, M)
            dec = Pm.PPM_DECODER(Pm.SDD(x, M), M)
            ctx.check("sdd.identity", np.array_equal(dec.data, b), "decode(SDD(waveform)) != bits")
    ctx.case(("sdd", sps, M, nsym, shape, mode), sample={"sps": sps, "M": M, "symbols": nsym, "shape": shape, "mode": mode} if i < 4 else None)
    ctx.bin("sdd.shape", shape)


def w_dsp(ctx, rng, i):
    """the packaged receiver calls SDD/HDD/PPM_DECODER internally: their postconditions fire there too."""
    import opticomlib.devices as dv
    sps = int(rng.choice([8, 16]))
    T.gv(sps=sps, R=1e9)
    M = int(rng.choice([2, 4, 8]))
    k = int(np.log2(M))
    b = dv.PRBS(9, len=k * 64, seed=int(rng.integers(1, 500)))
    np.random.seed(int(rng.integers(2 ** 31)))
    before = ctx.counters["hdd.post"]["checks"] + ctx.counters["sdd.post"]["checks"]
    with core.quiet():
        x = dv.DAC(Pm.PPM_ENCODER(b, M), pulse_shape="gaussian")
        x.noise = np.random.normal(0, 0.15, x.len())
        Pm.DSP(x, M, decision="soft")
        Pm.DSP(x, M, decision="hard", threshold=0.5)
    ctx.check("attach.reached", ctx.counters["hdd.post"]["checks"] + ctx.counters["sdd.post"]["checks"] >= before + 2, "postconditions did not fire inside ppm.DSP")
    ctx.case(("dsp", sps, M, i))


def w_sdd_two_grids(ctx, rng, i):
    """the same sample array decoded under sps = a, then b, then a: the slot integration must use the sps in force."""
    a, b = (int(v) for v in rng.choice([2, 4, 8, 16], 2, replace=False))
    M = int(rng.choice([2, 4, 8]))
    n = M * a * b * int(rng.integers(1, 5))
    y = rng.normal(0, 1, n)
    ctx.describe(sps_sequence=[a, b, a], M=M, n=n)
    outs = []
    for sps in (a, b, a):
        with core.quiet():
            T.gv(sps=sps, R=1e9)
            outs.append(Pm.SDD(y if rng.integers(2) else T.electrical_signal(y), M).data)      # sdd.post decides with the sps in force
    ctx.check("sdd.identity", np.array_equal(outs[0], outs[2]), f"SDD result under sps={a} differs after a visit to sps={b}")
    ctx.case(("sddgrids", a, b, M))


def FORM_TWINS():
    import opticomlib.ppm as pp
    return [(pp, ["PPM_ENCODER", "PPM_DECODER", "HDD", "SDD"])]


WORKLOADS = [
    Workload("roundtrip_exhaustive", w_roundtrip_exhaustive, len(RT_INDEX), len(RT_INDEX), exhaustive=True, budget=600),
    Workload("hdd_exhaustive", w_hdd_exhaustive, lambda: 4 * len(hdd_scope("quick")), lambda: 4 * len(hdd_scope("thorough")), exhaustive=True, budget=900),
    Workload("rejects", w_rejects, 60, 2000),
    Workload("random_long", w_random_long, 300, 30000),
    Workload("sdd", w_sdd, 400, 40000),
    Workload("dsp", w_dsp, 12, 400),
    Workload("repo_tests", lambda ctx, rng, i: core.run_repo_tests(ctx), 1, 1, budget=1800, tiers=("thorough",)),
    Workload("sdd_two_grids", w_sdd_two_grids, 60, 3000),
    Workload("hdd_extremes", w_hdd_extremes, 160, 8000),
    Workload("hdd_hostile_rng", w_hdd_hostile_rng, 96, 4800),
]


def classify(v):
    return None
