"""Instrumentation that reads state without changing behaviour: sys.monitoring frame-local probe."""
from __future__ import annotations

import inspect
import sys

import numpy as np

TOOL_ID = 3


class FrameProbe:
    """Records selected local variables of a live function frame every time execution reaches a source line containing
    `marker`.  Uses sys.monitoring LINE events restricted to the function's code object; every other line disables itself
    after its first event, so the cost is a handful of callbacks per call.  If the marker (or a variable) is not found the probe
    records nothing and the caller reports "not observed" — it can never raise an alarm by itself."""

    def __init__(self, func, marker, names, derive=None):
        func = getattr(func, "__rv_orig__", func)
        self.code = func.__code__
        self.names = names
        self.derive = derive
        self.records = []
        try:
            src, start = inspect.getsourcelines(func)
            self.lines = {start + i for i, l in enumerate(src) if marker in l and not l.strip().startswith("#")}
        except (OSError, TypeError):
            self.lines = set()
        self.active = False

    def _cb(self, code, line):
        if code is not self.code:
            return sys.monitoring.DISABLE
        if line not in self.lines:
            return sys.monitoring.DISABLE
        try:
            loc = sys._getframe(1).f_locals
            rec = {}
            for n in self.names:
                if n in loc:
                    v = loc[n]
                    rec[n] = float(v) if isinstance(v, (int, float, np.floating, np.integer)) else v
            if self.derive is not None:
                rec.update(self.derive(loc))
            rec["line"] = line
            self.records.append(rec)
        except Exception:
            pass
        return None

    def __enter__(self):
        self.records = []
        if not self.lines or not hasattr(sys, "monitoring"):
            return self
        mon = sys.monitoring
        try:
            mon.use_tool_id(TOOL_ID, "rv-frame-probe")
        except ValueError:
            pass  # already ours
        mon.register_callback(TOOL_ID, mon.events.LINE, self._cb)
        mon.set_local_events(TOOL_ID, self.code, mon.events.LINE)
        mon.restart_events()
        self.active = True
        return self

    def __exit__(self, *exc):
        if self.active:
            mon = sys.monitoring
            mon.set_local_events(TOOL_ID, self.code, 0)
            mon.register_callback(TOOL_ID, mon.events.LINE, None)
            try:
                mon.free_tool_id(TOOL_ID)
            except Exception:
                pass
            self.active = False
        return False


def fiber_probe(fiber_func):
    """Probe of the split-step loop: at every `exp_L = np.exp(D_op * h)` line record h, x_length and the peak total power of A."""
    def derive(loc):
        out = {}
        A = loc.get("A")
        if isinstance(A, np.ndarray):
            P = np.abs(A) ** 2
            out["peak_total_power"] = float((P.sum(axis=0) if A.ndim == 2 else P).max())
            out["finite"] = bool(np.all(np.isfinite(A)))
        return out
    return FrameProbe(fiber_func, "exp_L = np.exp(D_op", ["h", "x_length", "gamma", "length", "phi_max"], derive)
