"""Parameter coverage of the workloads (diagnostic, off by default: RV_PARAM_COV=<dir>).

A sys.monitoring PY_START callback on every function / method defined in opticomlib records, per call, which parameters
arrived with a value different from their default and the type of every argument. `tools/param_coverage.py` merges the
per-process dumps and lists parameters that no workload ever varied and argument types never presented — the systematic
answer to "which API forms did the monitors never see" (seeded rounds 3–5 were mostly missed through such gaps).
"""
import atexit
import inspect
import json
import os
import sys

TOOL = 4
_funcs = {}      # code -> (qualname, signature-ish)
_seen = {}       # qualname -> {"calls": n, "params": {name: {"nondefault": n, "types": {t: n}}}}


def _tname(v):
    t = type(v)
    if t.__module__ == "numpy" and hasattr(v, "dtype"):
        return f"{t.__name__}[{v.dtype}{',0d' if getattr(v, 'ndim', 1) == 0 and t.__name__ == 'ndarray' else ''}]"
    return t.__name__


def _register(fn, owner):
    try:
        code = fn.__code__
        sig = inspect.signature(fn)
    except (AttributeError, ValueError, TypeError):
        return
    defaults = {k: p.default for k, p in sig.parameters.items() if p.kind not in (p.VAR_POSITIONAL, p.VAR_KEYWORD)}
    _funcs[code] = (f"{owner}.{fn.__name__}", defaults)


def install():
    from . import core
    core.import_repo()
    import opticomlib.lab  # noqa
    mods = [m for n, m in sys.modules.items() if n.startswith("opticomlib") and m is not None]
    for m in mods:
        for name, obj in list(vars(m).items()):
            if inspect.isfunction(obj) and obj.__module__ == m.__name__:
                _register(obj, m.__name__.split(".")[-1])
            elif inspect.isclass(obj) and obj.__module__ == m.__name__:
                for an, av in list(vars(obj).items()):
                    f = av.__func__ if isinstance(av, (staticmethod, classmethod)) else av
                    if inspect.isfunction(f):
                        _register(f, f"{m.__name__.split('.')[-1]}.{obj.__name__}")
    mon = sys.monitoring
    mon.use_tool_id(TOOL, "rv-paramcov")

    def cb(code, off):
        info = _funcs.get(code)
        if info is None:
            return mon.DISABLE
        qn, defaults = info
        fr = sys._getframe(1)
        rec = _seen.setdefault(qn, {"calls": 0, "params": {}})
        rec["calls"] += 1
        loc = fr.f_locals
        for k, d in defaults.items():
            if k not in loc or k == "self":
                continue
            v = loc[k]
            pr = rec["params"].setdefault(k, {"nondefault": 0, "types": {}})
            try:
                same = (v is d) or (d is not inspect.Parameter.empty and type(v) is type(d) and bool(v == d))
            except Exception:
                same = False
            if not same:
                pr["nondefault"] += 1
            t = _tname(v)
            pr["types"][t] = pr["types"].get(t, 0) + 1
        kw = [n for n in code.co_varnames[code.co_argcount + code.co_kwonlyargcount:][:2] if n in ("kwargs", "kargs")]
        for n in kw:
            for kk in (loc.get(n) or {}):
                pr = rec["params"].setdefault(f"**{kk}", {"nondefault": 0, "types": {}})
                pr["nondefault"] += 1
                t = _tname(loc[n][kk])
                pr["types"][t] = pr["types"].get(t, 0) + 1

    mon.register_callback(TOOL, mon.events.PY_START, cb)
    for code in _funcs:
        mon.set_local_events(TOOL, code, mon.events.PY_START)
    out = os.environ["RV_PARAM_COV"]
    os.makedirs(out, exist_ok=True)

    def dump():
        with open(os.path.join(out, f"{os.getpid()}.json"), "w") as f:
            json.dump({"declared": {q: list(d) for q, d in _funcs.values()}, "seen": _seen}, f)
    atexit.register(dump)
