"""Runtime-verification core: run context, counters, verdicts, watchdog, attach layer, evidence.

Everything here is harness code; oracles live in rv/ref.py and the property modules.
"""
from __future__ import annotations

import contextlib
import hashlib
import json
import os
import signal
import sys
import threading
import time
import traceback
import warnings
import zlib
from collections import Counter, defaultdict

import numpy as np

ROOT = os.path.dirname(os.path.dirname(os.path.abspath(__file__)))
REPO = os.environ.get("RV_REPO", "/repo")
GUARD = "OPTICOMLIB_VERIF"

MAX_WITNESS_PER_KEY = 3
MAX_SAMPLES = 8


class Watchdog(Exception):
    """Raised by the per-case interval timer. Carries the interrupted frame's description."""

    def __init__(self, what, frame_info):
        super().__init__(what)
        self.frame_info = frame_info


class Skip(Exception):
    """A generated case fell outside the property's quantifier domain (not counted)."""


class Inconclusive(Exception):
    pass


def crc(s: str) -> int:
    return zlib.crc32(s.encode())


def jsonable(x, depth=0):
    """Compact JSON-safe rendering of case descriptors / observed values."""
    if depth > 6:
        return "…"
    if isinstance(x, int) and not isinstance(x, bool) and x.bit_length() > 4000:
        return f"<{x.bit_length()}-bit integer, low 64 bits {x % 2 ** 64}>"        # python will not print it (int max str digits)
    if x is None or isinstance(x, (bool, int, str)):
        return x
    if isinstance(x, float):
        return x if np.isfinite(x) else repr(x)
    if isinstance(x, complex):
        return repr(x)
    if isinstance(x, np.generic):
        return jsonable(x.item(), depth + 1)
    if isinstance(x, np.ndarray):
        if x.size <= 12:
            return {"nd": [jsonable(v, depth + 1) for v in x.ravel().tolist()], "shape": list(x.shape), "dtype": str(x.dtype)}
        flat = x.ravel()
        return {"shape": list(x.shape), "dtype": str(x.dtype), "head": [jsonable(v, depth + 1) for v in flat[:6].tolist()],
                "sha": hashlib.sha1(np.ascontiguousarray(x).tobytes()).hexdigest()[:12]}
    if isinstance(x, dict):
        return {str(k): jsonable(v, depth + 1) for k, v in list(x.items())[:40]}
    if isinstance(x, (list, tuple, set, frozenset)):
        xs = list(x)
        out = [jsonable(v, depth + 1) for v in xs[:24]]
        if len(xs) > 24:
            out.append(f"…(+{len(xs) - 24})")
        return out
    return repr(x)[:200]


def digest(*arrays) -> str:
    h = hashlib.sha1()
    for a in arrays:
        if a is None:
            h.update(b"<none>")
        else:
            a = np.asarray(a)
            h.update(str(a.dtype).encode() + str(a.shape).encode())
            h.update(np.ascontiguousarray(a).tobytes())
    return h.hexdigest()


class Ctx:
    """Per-run (per-shard) state shared by workloads and monitors."""

    def __init__(self, prop, tier, seed, shard=(0, 1)):
        self.prop = prop
        self.tier = tier
        self.seed = int(seed)
        self.shard = shard
        self.counters = defaultdict(lambda: {"calls": 0, "checks": 0, "failures": 0, "not_observed": 0})
        self.evaluations = 0
        self.sigs = set()
        self.samples = []
        self.bins = defaultdict(Counter)
        self.violations = []          # dicts
        self.viol_count = Counter()   # per key
        self.inconclusive = []
        self.notes = []
        self.exhaustive = {}
        self.cur = {}                 # current case: workload, index
        self.cur_desc = None
        self.t0 = time.time()
        self._sample_quota = defaultdict(int)

    # ---- counting -------------------------------------------------------------------
    def call(self, monitor, n=1):
        self.counters[monitor]["calls"] += n

    def not_observed(self, monitor, n=1):
        self.counters[monitor]["not_observed"] += n

    def check(self, monitor, ok, msg="", **info):
        """Record one evaluation of `monitor`. Returns bool(ok)."""
        c = self.counters[monitor]
        c["checks"] += 1
        try:
            ok = bool(ok)
        except Exception:
            ok = False
        if not ok:
            c["failures"] += 1
            self.violation(monitor, msg, **info)
        return ok

    def close(self, monitor, a, b, rtol=1e-9, atol=0.0, msg="", **info):
        """numpy.allclose check with shape test; NaNs never compare equal."""
        try:
            a_ = np.asarray(a)
            b_ = np.asarray(b)
            ok = a_.shape == b_.shape and bool(np.all(np.abs(a_ - b_) <= atol + rtol * np.abs(b_)))
            err = None
            if not ok and a_.shape == b_.shape and a_.size:
                with np.errstate(all="ignore"):
                    err = float(np.nanmax(np.abs(a_ - b_)))
        except Exception as e:  # incomparable objects
            ok = False
            err = repr(e)
        return self.check(monitor, ok, msg or "values differ", max_abs_err=err, got=a, want=b, **info)

    def violation(self, monitor, msg, **info):
        v = {
            "monitor": monitor,
            "msg": msg,
            "workload": self.cur.get("workload"),
            "index": self.cur.get("index"),
            "case": jsonable(self.cur_desc),
            "info": jsonable(info),
        }
        key = monitor
        self.viol_count[key] += 1
        if self.viol_count[key] <= MAX_WITNESS_PER_KEY or len(self.violations) < 40:
            self.violations.append(v)

    def raises(self, monitor, exc, fn, *a, msg="", **k):
        """Check that fn(*a, **k) raises one of `exc`."""
        before_args = [_arg_state(v) for v in a] + [(kk, _arg_state(v)) for kk, v in sorted(k.items())]
        before_lib = library_state()
        try:
            with warnings.catch_warnings():
                warnings.simplefilter("ignore")
                r = fn(*a, **k)
        except exc:
            ok = self.check(monitor, True)
            # exception safety: a call that rejects its arguments must leave them, gv, the library's module-level variables and
            # the ambient state exactly as they were ("the next valid call" must not see a difference)
            after_args = [_arg_state(v) for v in a] + [(kk, _arg_state(v)) for kk, v in sorted(k.items())]
            changed = [i for i, (x, y) in enumerate(zip(before_args, after_args)) if x != y]
            self.check("exception.safety", not changed, f"{getattr(fn, '__name__', type(fn).__name__)}: the rejected call ({_names(exc)}) left argument(s) {changed} modified", args=a, kwargs=k)
            d = library_state_diff(before_lib, library_state())
            self.check("exception.safety", d is None, f"{getattr(fn, '__name__', type(fn).__name__)}: the rejected call ({_names(exc)}) left library state changed: {d}", args=a, kwargs=k)
            return ok
        except Watchdog:
            raise
        except Exception as e:
            return self.check(monitor, False, msg or f"expected {_names(exc)}, got {type(e).__name__}: {e}"[:300], args=a, kwargs=k)
        return self.check(monitor, False, msg or f"expected {_names(exc)}, call returned", args=a, kwargs=k, returned=r)

    def probe(self, name, fn, *a, **k):
        """Call fn(*a, **k) with arguments for which the property's statement names NO outcome (a rejection the library documents but
        the statement does not, a convenience form it may or may not accept): the outcome is recorded as a coverage bin and is never a
        verdict — a library that starts accepting such a call, or rejects it with another exception, still satisfies the property.
        Only the exception-safety of a rejection is asserted, as in `raises`."""
        before_args = [_arg_state(v) for v in a] + [(kk, _arg_state(v)) for kk, v in sorted(k.items())]
        before_lib = library_state()
        try:
            with warnings.catch_warnings():
                warnings.simplefilter("ignore")
                fn(*a, **k)
        except (Watchdog, MonitorError):
            raise
        except Exception as e:
            self.bin(f"probe.{name}", type(e).__name__)
            after_args = [_arg_state(v) for v in a] + [(kk, _arg_state(v)) for kk, v in sorted(k.items())]
            changed = [i for i, (x, y) in enumerate(zip(before_args, after_args)) if x != y]
            self.check("exception.safety", not changed, f"{getattr(fn, '__name__', type(fn).__name__)}: the rejected call ({type(e).__name__}) left argument(s) {changed} modified", args=a, kwargs=k)
            d = library_state_diff(before_lib, library_state())
            self.check("exception.safety", d is None, f"{getattr(fn, '__name__', type(fn).__name__)}: the rejected call ({type(e).__name__}) left library state changed: {d}", args=a, kwargs=k)
            return False
        self.bin(f"probe.{name}", "accepted")
        return True

    # ---- coverage -------------------------------------------------------------------
    def case(self, sig, nontrivial=True, sample=None, desc=None):
        """Count one explored case. `sig` is the discretised descriptor used for distinctness."""
        self.evaluations += 1
        if nontrivial:
            self.sigs.add(hashlib.blake2b(repr(sig).encode(), digest_size=8).hexdigest())
        if sample is not None:
            w = self.cur.get("workload", "?")
            if self._sample_quota[w] < 2 and len(self.samples) < 24:
                self._sample_quota[w] += 1
                self.samples.append({"workload": w, "index": self.cur.get("index"), "case": jsonable(sample)})

    def describe(self, **desc):
        """Attach a descriptor of the current case; used in violation witnesses."""
        self.cur_desc = desc

    def bin(self, name, value):
        self.bins[name][str(value)] += 1

    def note(self, text):
        if len(self.notes) < 50:
            self.notes.append(text)

    def scale(self, quick, thorough):
        return quick if self.tier == "quick" else thorough

    # ---- rng ------------------------------------------------------------------------
    def rng_for(self, workload, index):
        return np.random.Generator(np.random.PCG64([self.seed, crc(self.prop), crc(workload), int(index)]))


def _names(exc):
    if isinstance(exc, tuple):
        return "/".join(e.__name__ for e in exc)
    return exc.__name__


# ------------------------------------------------------------------------------------------
# watchdog
# ------------------------------------------------------------------------------------------

def _frame_info(frame):
    info = []
    f = frame
    depth = 0
    while f is not None and depth < 6:
        code = f.f_code
        loc = {}
        for k, v in list(f.f_locals.items())[:40]:
            if isinstance(v, (int, float, complex, np.number)) and not isinstance(v, bool):
                try:
                    loc[k] = repr(v)[:40]
                except Exception:
                    pass
        info.append({"func": code.co_name, "file": code.co_filename, "line": f.f_lineno, "locals": loc})
        f = f.f_back
        depth += 1
    return info


@contextlib.contextmanager
def watchdog(seconds, what="case"):
    """Interval-timer watchdog. Library loops are Python-level so the handler fires promptly."""
    if threading.current_thread() is not threading.main_thread():
        yield
        return

    def handler(signum, frame):
        raise Watchdog(f"{what}: no return within {seconds}s", _frame_info(frame))

    old = signal.signal(signal.SIGALRM, handler)
    signal.setitimer(signal.ITIMER_REAL, seconds)
    try:
        yield
    finally:
        signal.setitimer(signal.ITIMER_REAL, 0)
        signal.signal(signal.SIGALRM, old)


# ------------------------------------------------------------------------------------------
# attach layer
# ------------------------------------------------------------------------------------------

_tls = threading.local()


def in_monitor():
    return getattr(_tls, "depth", 0) > 0


class MonitorError(RuntimeError):
    """an exception raised by monitor code itself (e.g. while reshaping a malformed result). It must never be mistaken for the
    library's own documented ValueError / TypeError by a surrounding Ctx.raises."""


@contextlib.contextmanager
def monitor_scope(convert=True):
    """Code run inside is harness code calling the library: nested monitors neither run nor count. Exceptions escaping from it are
    re-raised as MonitorError (convert=False where the block deliberately lets library exceptions through)."""
    _tls.depth = getattr(_tls, "depth", 0) + 1
    try:
        yield
    except (Watchdog, MonitorError, KeyboardInterrupt):
        raise
    except Exception as e:
        if not convert or type(e).__name__ == "Skip":
            raise
        raise MonitorError(f"monitor code raised {type(e).__name__}: {e}") from e
    finally:
        _tls.depth -= 1


_DB_FILTER = ("ignore", None, RuntimeWarning, None, 0)     # utils.db() of the pinned tree installs this one on every call


def ambient_snapshot(full=True):
    """process-global state that is neither an argument, nor gv, nor numpy's RNG: numpy error state and print options, the
    warnings filter list and (full=True) the working directory and the environment."""
    snap = {"np.geterr": np.geterr(), "np.printoptions": np.get_printoptions(), "warnings.filters": [f for f in warnings.filters if f != _DB_FILTER]}
    if full:
        snap["cwd"] = os.getcwd()
        snap["environ"] = dict(os.environ)
    return snap


def ambient_diff(a, b):
    """None if equal, else a short description of what a call left changed."""
    out = []
    for k in a:
        if k == "warnings.filters":
            if len(a[k]) != len(b[k]) or any(x is not y and tuple(x) != tuple(y) for x, y in zip(a[k], b[k])):
                new = [tuple(str(z) for z in f) for f in b[k] if all(tuple(f) != tuple(g) for g in a[k])]
                out.append(f"warnings.filters changed (new entries: {new[:3]}; {len(a[k])} -> {len(b[k])} filters)")
        elif a[k] != b[k]:
            if isinstance(a[k], dict):
                d = {kk: (a[k].get(kk), b[k].get(kk)) for kk in set(a[k]) | set(b[k]) if a[k].get(kk) != b[k].get(kk)}
                out.append(f"{k} changed: {d}")
            else:
                out.append(f"{k} changed: {a[k]!r} -> {b[k]!r}")
    return "; ".join(out)[:400] or None


def _arg_state(v, depth=0):
    """value-level fingerprint of an argument: arrays by dtype/shape/bytes, signal-like objects by their array attributes"""
    if isinstance(v, np.ndarray):
        return ("nd", digest(v))
    if hasattr(v, "signal") and hasattr(v, "noise"):
        return ("sig", type(v).__name__, digest(getattr(v, "signal", None)), digest(getattr(v, "noise", None)), getattr(v, "n_pol", None))
    if hasattr(v, "data") and isinstance(getattr(v, "data", None), np.ndarray):
        return ("bs", type(v).__name__, digest(v.data))
    if isinstance(v, (list, tuple)) and depth < 2 and len(v) <= 64:
        return (type(v).__name__,) + tuple(_arg_state(x, depth + 1) for x in v)
    if isinstance(v, dict) and depth < 2:
        return ("dict",) + tuple((k, _arg_state(x, depth + 1)) for k, x in sorted(v.items(), key=lambda kv: str(kv[0])))
    if isinstance(v, int) and not isinstance(v, bool) and v.bit_length() > 4000:
        return ("bigint", v.bit_length(), hash(v))
    if isinstance(v, (int, float, complex, str, bool, type(None), np.generic)):
        return ("v", repr(v))
    return ("obj", type(v).__name__)


def library_state():
    """everything a call must leave as it found it (besides its result): gv, the module-level variables of opticomlib's modules
    (functions, classes and modules aside) and the process-global ambient state."""
    import types
    st = {}
    try:
        import opticomlib.typing as _ty
        st["gv"] = {k: (digest(v) if isinstance(v, np.ndarray) else repr(v)) for k, v in vars(_ty.gv).items()}
    except Exception:
        st["gv"] = None
    mods = {}
    for m in opticomlib_modules():
        d = {}
        for k, v in vars(m).items():
            if k.startswith("__") or isinstance(v, (types.FunctionType, types.ModuleType, type, types.BuiltinFunctionType)) or callable(v):
                continue
            if isinstance(v, (int, float, complex, str, bool, type(None), tuple, frozenset)):
                d[k] = repr(v)[:200]
            elif isinstance(v, np.ndarray):
                d[k] = digest(v)
            elif isinstance(v, (list, dict, set)):
                d[k] = (type(v).__name__, len(v), repr(v)[:200])
            else:
                d[k] = ("id", id(v))
        mods[m.__name__] = d
    st["modules"] = mods
    st["ambient"] = ambient_snapshot(full=False)
    return st


def library_state_diff(a, b):
    out = []
    if a["gv"] != b["gv"]:
        ch = [k for k in set(a["gv"] or {}) | set(b["gv"] or {}) if (a["gv"] or {}).get(k) != (b["gv"] or {}).get(k)]
        out.append(f"gv changed ({ch[:6]})")
    for mn in a["modules"]:
        da, db = a["modules"][mn], b["modules"].get(mn, {})
        ch = [k for k in set(da) | set(db) if da.get(k) != db.get(k)]
        if ch:
            out.append(f"module-level variable(s) of {mn} changed: " + ", ".join(f"{k}: {da.get(k)} -> {db.get(k)}" for k in ch[:4]))
    amb = ambient_diff(a["ambient"], b["ambient"])
    if amb:
        out.append(amb)
    return "; ".join(out)[:500] or None


_POISON = [float("nan"), 1e300, -7.5, 3.0]


def poison_small_blocks(k=0):
    """uninitialised-memory detector for numpy code (what MemorySanitizer is to C): numpy keeps freed blocks of fewer than 1024 bytes
    in a per-size cache and hands them back, contents intact, to the next np.empty / np.ndarray of that size. Filling that cache with
    a recognisable value (NaN, 1e300, -7.5 or 3.0, chosen by `k`) makes a result that reads memory it never wrote depend on `k`:
    it shows up as a non-finite or wrong value in the postconditions, or as a mismatch between a call and its twin."""
    val = _POISON[k % len(_POISON)]
    keep = []
    for n in range(1, 128):
        for _ in range(8):
            a = np.empty(n)
            a.fill(val)
            keep.append(a)
    for n in (1, 2, 3, 5, 7, 9, 15, 17, 31, 33, 63):      # complex blocks of the same byte sizes are covered above; (2, n) blocks too
        a = np.empty((2, n))
        a.fill(val)
        keep.append(a)
    del keep


def lopsided(rng, z, every=8):
    """with probability 1/every, shrink one quadrature of a complex array to 1e-8.5 … 1e-11 of the other: small, but data (a weak
    phase modulation on a carrier) — anything that treats it as rounding noise changes the signal."""
    z = np.asarray(z)
    if not np.iscomplexobj(z) or rng.integers(every) != 0:
        return z
    f = 10 ** rng.uniform(-11, -8.5)
    return (z.real + 1j * z.imag * f) if rng.integers(2) else (z.real * f + 1j * z.imag)


def degenerate_rows(rng, a, every=5, rows_only=False):
    """with probability 1/every, a degenerate but valid variant of a record: for (2, n) data one polarisation exactly zero, both
    polarisations identical, or one the negative of the other; for any data everything zero or a constant. Anything that infers
    "no noise" / "same in both polarisations" from part of a record and applies it to the rest shows up here."""
    a = np.array(a)
    if rng.integers(every) != 0 or a.size == 0:
        return a
    k = int(rng.integers(6))
    if a.ndim == 2 and a.shape[0] == 2 and k < 4:
        r = int(rng.integers(2))
        if k == 0 or k == 1:
            a[r] = 0
        elif k == 2:
            a[r] = a[1 - r]
        else:
            a[r] = -a[1 - r]
        return a
    if rows_only:
        return a
    if k == 4:
        return np.zeros_like(a)
    a[...] = a.flat[0]
    return a


LONG_SCALE = [1]     # run_shard sets 8 for the thorough tier (same number of long records as quick x 10, not x 100)


@contextlib.contextmanager
def hostile_rng(g):
    """Fault injection into numpy's global RNG: while active, the numpy.random functions a library may call return values from the
    far tails of their distributions (first / last index, 0 and 1-ulp-below-1, +-37 sigma, the largest and smallest Gumbel /
    exponential deviates a float64 stream can produce), mixed element-wise with ordinary draws by the generator `g`. Every such
    stream is the output of *some* seed, so a clause quantified over "all numpy seeds" (what a random tie-break may and may not do)
    must hold under it; statistical clauses are not evaluated under it."""
    import numpy.random as npr
    saved = {}

    def shape_of(size):
        return () if size is None else (tuple(size) if np.ndim(size) else (int(size),))

    def pick(size, *options):
        sh = shape_of(size)
        opts = [np.broadcast_to(np.asarray(o), sh) if sh else np.asarray(o) for o in options]
        k = g.integers(len(opts), size=sh) if sh else int(g.integers(len(opts)))
        out = np.choose(k, opts) if sh else opts[k]
        return out if sh else out[()]

    def randint(low, high=None, size=None, dtype=int):
        if high is None:
            low, high = 0, low
        return np.asarray(pick(size, low, np.asarray(high) - 1, g.integers(low, high, size=shape_of(size) or None))).astype(dtype)[()]

    def choice(a, size=None, replace=True, p=None):
        arr = np.arange(a) if np.ndim(a) == 0 else np.asarray(a)
        idx = randint(0, arr.shape[0], size)
        return arr[idx]

    def random(size=None):
        return pick(size, 0.0, np.nextafter(1.0, 0.0), 5e-324, g.random(shape_of(size) or None))

    def normal(loc=0.0, scale=1.0, size=None):
        if size is None:
            size = np.broadcast(np.asarray(loc), np.asarray(scale)).shape or None
        return loc + scale * pick(size, -37.0, 37.0, 0.0, g.standard_normal(shape_of(size) or None))

    def gumbel(loc=0.0, scale=1.0, size=None):
        if size is None:
            size = np.broadcast(np.asarray(loc), np.asarray(scale)).shape or None
        return loc + scale * pick(size, -3.6, 36.7, g.gumbel(size=shape_of(size) or None))

    def exponential(scale=1.0, size=None):
        return scale * pick(size, 0.0, 745.0, g.exponential(size=shape_of(size) or None))

    def uniform(low=0.0, high=1.0, size=None):
        return low + (np.asarray(high) - low) * random(size)

    def permutation(x):
        arr = np.arange(x) if np.ndim(x) == 0 else np.array(x)
        k = int(g.integers(3))
        return arr if k == 0 else (arr[::-1].copy() if k == 1 else g.permutation(arr))

    def shuffle(x):
        x[...] = permutation(x)

    repl = {"randint": randint, "choice": choice, "random": random, "random_sample": random, "rand": lambda *d: random(d or None), "randn": lambda *d: normal(0.0, 1.0, d or None),
            "normal": normal, "standard_normal": lambda size=None: normal(0.0, 1.0, size), "gumbel": gumbel, "exponential": exponential, "uniform": uniform,
            "permutation": permutation, "shuffle": shuffle}
    for k, f in repl.items():
        saved[k] = getattr(npr, k)
        setattr(npr, k, f)
    _twin[0] += 1000        # no twin calls while the stream is not reproducible through numpy's state (rv/forms.py checks in_twin())
    try:
        yield
    finally:
        _twin[0] -= 1000
        for k, f in saved.items():
            setattr(npr, k, f)


ROUND_LENGTHS = (500, 1000, 1024, 2000, 4096, 5000, 8192, 10000, 16384, 32768, 50000, 65536, 100000, 131072)


def long_or(rng, i, n, longs=(32769, 50000, 70001, 131075), every=16, phase=7, huge=True):
    """record-length helper: every `every`-th case of a workload replaces the drawn length by one beyond the usual internal
    block sizes (2**15, 2**16, 2**17; not multiples of them), so that chunked / narrow-index code paths are reached."""
    if huge and LONG_SCALE[0] > 1 and i % 2048 == 1029:
        return 2 ** 22 + 1            # thorough tier only: an odd record of four million samples, beyond any plausible internal switch of algorithm
    every = every * LONG_SCALE[0]
    if i % every == phase:
        return int(longs[int(rng.integers(len(longs)))])
    if i % every == (phase + every // 2) % every and max(longs) >= 32769:
        return int(ROUND_LENGTHS[int(rng.integers(len(ROUND_LENGTHS)))])      # ... and exact multiples of them (an empty last block)
    return n


def opticomlib_modules():
    return [m for n, m in list(sys.modules.items()) if m is not None and (n == "opticomlib" or n.startswith("opticomlib."))]


_attached = []
_twin = [0]          # > 0 while rv/forms.py executes a twin call: spies armed by a workload must not record those


def in_twin():
    return _twin[0] > 0


def attach(module, name, make_wrapper):
    """Replace `module.name` by make_wrapper(orig) in every loaded opticomlib module that binds the same object."""
    orig = getattr(module, name)
    if getattr(orig, "__rv_orig__", None) is not None:
        raise RuntimeError(f"{name} already wrapped")
    wrapper = make_wrapper(orig)
    wrapper.__rv_orig__ = orig
    try:
        wrapper.__name__ = getattr(orig, "__name__", name)
        wrapper.__doc__ = getattr(orig, "__doc__", None)
    except Exception:
        pass
    n = 0
    for m in opticomlib_modules():
        for attr, val in list(vars(m).items()):
            if val is orig:
                setattr(m, attr, wrapper)
                _attached.append((m, attr, orig))
                n += 1
    return orig, n


def attach_method(cls, name, make_wrapper):
    orig = cls.__dict__[name]
    wrapper = make_wrapper(orig)
    wrapper.__rv_orig__ = orig
    setattr(cls, name, wrapper)
    _attached.append((cls, name, orig))
    return orig


def detach_all():
    while _attached:
        holder, attr, orig = _attached.pop()
        setattr(holder, attr, orig)


@contextlib.contextmanager
def spy(module, name, recorder):
    """Temporarily replace module.name by a recording pass-through. recorder(args, kwargs, result)."""
    orig = getattr(module, name)

    def passthrough(*a, **k):
        r = orig(*a, **k)
        if _twin[0] > 0:
            return r
        try:
            recorder(a, k, r)
        except Exception:  # a spy must never change behaviour
            pass
        return r

    setattr(module, name, passthrough)
    try:
        yield orig
    finally:
        setattr(module, name, orig)


@contextlib.contextmanager
def readonly(*arrays):
    """Write-protect argument buffers for the duration of a call. A correct (pure) library never notices."""
    changed = []
    for a in arrays:
        if isinstance(a, np.ndarray) and a.flags.writeable:
            try:
                a.flags.writeable = False
                changed.append(a)
            except ValueError:
                pass
    try:
        yield
    finally:
        for a in changed:
            try:
                a.flags.writeable = True
            except ValueError:
                pass


@contextlib.contextmanager
def quiet():
    """Silence library warnings / prints during a monitored call (they are not part of the verdict)."""
    import io
    with warnings.catch_warnings():
        warnings.simplefilter("ignore")
        with np.errstate(all="ignore"):
            old = sys.stdout
            sys.stdout = io.StringIO()
            try:
                yield
            finally:
                sys.stdout = old


def import_repo():
    """Import opticomlib from $RV_REPO (never from an installed copy)."""
    if REPO not in sys.path:
        sys.path.insert(0, REPO)
    os.environ.setdefault("MPLBACKEND", "Agg")
    with warnings.catch_warnings():
        warnings.simplefilter("ignore")
        import opticomlib  # noqa
        import opticomlib.typing, opticomlib.devices, opticomlib.utils, opticomlib.ook, opticomlib.ppm  # noqa
    f = os.path.realpath(opticomlib.__file__)
    if not f.startswith(os.path.realpath(REPO) + os.sep):
        raise RuntimeError(f"opticomlib imported from {f}, expected under {REPO}")
    # the library's db() installs a global "ignore RuntimeWarning" filter; harmless here
    return opticomlib


def run_repo_tests(ctx):
    """Run $RV_REPO/tests in a pytest subprocess with this property's monitors armed (rv.pytest_plugin); fold what they saw into ctx.
    A monitor that fires there is either stricter than what the library's own callers do, or a defect the tests do not assert."""
    import subprocess
    import tempfile
    out = tempfile.NamedTemporaryFile(prefix="rvtests_", suffix=".json", delete=False).name
    env = dict(os.environ, RV_PROP=ctx.prop, RV_OUT=out, MPLBACKEND="Agg", PYTHONPATH=os.pathsep.join([ROOT, os.path.join(ROOT, ".deps"), REPO]))
    try:
        r = subprocess.run([sys.executable, "-m", "pytest", "-q", "-x", "-p", "no:cacheprovider", "-p", "rv.pytest_plugin", os.path.join(REPO, "tests")], cwd=REPO, env=env,
                           capture_output=True, text=True, timeout=1800)
        data = json.load(open(out))
    except Exception as e:
        ctx.inconclusive.append({"reason": f"repository tests under monitors could not run: {e!r}"[:300]})
        return
    finally:
        if os.path.exists(out):
            os.remove(out)
    n = 0
    for m, c in data["counters"].items():
        for k, v in c.items():
            ctx.counters[m][k] += v
        n += c.get("checks", 0)
    for v in data["violations"]:
        ctx.violations.append(v)
    for k, v in data["viol_count"].items():
        ctx.viol_count[k] += v
    ctx.check("repo_tests.ran", data["tests"] >= 40 and n > 0, f"repository tests under monitors: {data['tests']} tests collected, {n} monitor evaluations (pytest exit {data['pytest_exit']})")
    ctx.evaluations += data["tests"]
    ctx.case(("repo_tests",), sample={"tests": data["tests"], "monitor_evaluations_during_tests": n, "pytest_exit": data["pytest_exit"]})
