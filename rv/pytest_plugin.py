"""pytest plugin: arms the monitors of one property (env RV_PROP) while the repository's own test-suite runs, and dumps what they saw."""
import importlib
import json
import os

from rv import core
from rv.core import Ctx

_state = {}


def pytest_configure(config):
    prop = os.environ["RV_PROP"]
    core.import_repo()
    mod = importlib.import_module(f"rv.props.{prop.lower()}")
    ctx = Ctx(prop, "thorough", int(os.environ.get("VERIF_SEED", "0") or 0))
    ctx.cur = {"workload": "repo_tests", "index": "collection"}
    mod.setup(ctx)
    _state.update(ctx=ctx, mod=mod)


def pytest_runtest_setup(item):
    _state["ctx"].cur = {"workload": "repo_tests", "index": item.nodeid}
    _state["ctx"].cur_desc = {"test": item.nodeid}


def pytest_sessionfinish(session, exitstatus):
    ctx = _state["ctx"]
    out = {"counters": {m: dict(c) for m, c in ctx.counters.items()}, "violations": ctx.violations, "viol_count": dict(ctx.viol_count), "pytest_exit": int(exitstatus),
           "tests": session.testscollected}
    with open(os.environ["RV_OUT"], "w") as f:
        json.dump(out, f, default=str)
