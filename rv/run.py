"""CLI: python -m rv.run <ID> --tier quick|thorough [--shard k/n --out file] [--replay path]

Exit codes: 0 held on what was observed (known findings only print a line); 1 violation; 2 inconclusive.
"""
from __future__ import annotations

import argparse
import faulthandler
import hashlib
import importlib
import json
import os
import subprocess
import sys
import time
import traceback
from collections import Counter, defaultdict

from . import core
from .core import Ctx, Skip, Watchdog


class Workload:
    def __init__(self, name, fn, quick, thorough=None, budget=60.0, cap_quick=120.0, cap_thorough=1500.0, exhaustive=False, tiers=("quick", "thorough")):
        self.name = name
        self.fn = fn
        self.quick = quick
        self.thorough = quick if thorough is None else thorough
        self.budget = budget
        self.cap_quick = cap_quick
        self.cap_thorough = cap_thorough
        self.exhaustive = exhaustive
        self.tiers = tiers

    def count(self, tier):
        n = self.quick if tier == "quick" else self.thorough
        return n() if callable(n) else n


def load(prop):
    return importlib.import_module(f"rv.props.{prop.lower()}")


def known_findings():
    p = os.path.join(core.ROOT, "known_findings.json")
    if not os.path.exists(p):
        return {}
    data = json.load(open(p))
    return {(f["property"], f["key"]): f for f in data.get("findings", [])}


def run_shard(prop, tier, seed, shard, only=None):
    """Run the workloads of one shard in this process; returns a JSON-able report."""
    mod = load(prop)
    core.import_repo()
    if os.environ.get("RV_PARAM_COV"):          # diagnostic only (tools/param_coverage.py)
        from . import paramcov
        paramcov.install()
    ctx = Ctx(prop, tier, seed, shard)
    core.LONG_SCALE[0] = 8 if tier == "thorough" else 1
    k, n = shard
    t_start = time.time()
    if hasattr(mod, "setup"):
        mod.setup(ctx)
    if hasattr(mod, "FORM_TWINS") and not os.environ.get("RV_NO_FORMS"):      # argument-representation twins on top of the monitors (rv/forms.py)
        from . import forms
        import atexit
        forms.install(ctx, mod.FORM_TWINS())
        atexit.register(forms.dump_record)
    caps_hit = []
    for wl in mod.WORKLOADS:
        if tier not in wl.tiers:
            continue
        if only and wl.name != only[0]:
            continue
        total = wl.count(tier)
        cap = wl.cap_quick if tier == "quick" else wl.cap_thorough
        t_w = time.time()
        done = 0
        for i in range(total):
            if only:
                if i != only[1]:
                    continue
            elif i % n != k:
                continue
            if time.time() - t_w > cap:
                caps_hit.append({"workload": wl.name, "done": done, "of": (total - k + n - 1) // n})
                break
            ctx.cur = {"workload": wl.name, "index": i}
            ctx.cur_desc = None
            rng = ctx.rng_for(wl.name, i)
            pe = 1 if total <= 2000 else (4 if total <= 20000 else 32)
            if i % pe == 0:
                core.poison_small_blocks(i // pe)      # uninitialised reads become visible (core.poison_small_blocks)
            try:
                with core.watchdog(wl.budget, f"{wl.name}[{i}]"):
                    wl.fn(ctx, rng, i)
            except Skip:
                pass
            except Watchdog as w:
                handled = False
                if hasattr(mod, "on_watchdog"):
                    handled = mod.on_watchdog(ctx, w)
                if not handled:
                    ctx.inconclusive.append({"reason": f"watchdog: {w}", "workload": wl.name, "index": i, "frames": w.frame_info[:3]})
            except MemoryError:
                ctx.inconclusive.append({"reason": "MemoryError", "workload": wl.name, "index": i})
            except Exception as e:  # the library (or the oracle fed by it) blew up on an in-domain case
                tb = traceback.format_exc()
                ctx.check("no-unexpected-exception", False, f"{type(e).__name__}: {e}"[:300], traceback=tb[-1800:])
            done += 1
        if wl.exhaustive and not any(c["workload"] == wl.name for c in caps_hit) and not only:
            ctx.exhaustive[wl.name] = True
    if hasattr(mod, "finish") and not only:
        ctx.cur = {"workload": "finish", "index": 0}
        ctx.cur_desc = None
        try:
            mod.finish(ctx)
        except Exception as e:
            ctx.check("no-unexpected-exception", False, f"finish: {type(e).__name__}: {e}"[:300], traceback=traceback.format_exc()[-1800:])
    core.detach_all()
    return {
        "prop": prop, "tier": tier, "seed": seed, "shard": list(shard),
        "evaluations": ctx.evaluations,
        "sigs": sorted(ctx.sigs),
        "samples": ctx.samples,
        "bins": {b: dict(c) for b, c in ctx.bins.items()},
        "counters": {m: dict(c) for m, c in ctx.counters.items()},
        "violations": ctx.violations,
        "viol_count": dict(ctx.viol_count),
        "inconclusive": ctx.inconclusive,
        "notes": ctx.notes,
        "exhaustive": ctx.exhaustive,
        "caps_hit": caps_hit,
        "wall_s": time.time() - t_start,
    }


def merge(reports):
    out = {
        "evaluations": 0, "sigs": set(), "samples": [], "bins": defaultdict(Counter), "counters": defaultdict(Counter),
        "violations": [], "viol_count": Counter(), "inconclusive": [], "notes": [], "exhaustive": {}, "caps_hit": [], "shard_wall_s": [],
    }
    exh = defaultdict(list)
    for r in reports:
        out["evaluations"] += r["evaluations"]
        out["sigs"].update(r["sigs"])
        out["samples"].extend(r["samples"][: max(2, core.MAX_SAMPLES // max(1, len(reports)))])
        for b, c in r["bins"].items():
            out["bins"][b].update(c)
        for m, c in r["counters"].items():
            out["counters"][m].update(c)
        out["violations"].extend(r["violations"])
        out["viol_count"].update(r["viol_count"])
        out["inconclusive"].extend(r["inconclusive"])
        for t in r["notes"]:
            if t not in out["notes"]:
                out["notes"].append(t)
        for w, v in r["exhaustive"].items():
            exh[w].append(v)
        out["caps_hit"].extend(r["caps_hit"])
        out["shard_wall_s"].append(round(r["wall_s"], 2))
    out["exhaustive"] = {w: (len(v) == len(reports) and all(v)) for w, v in exh.items()}
    return out


def write_replay(prop, tier, seed, v):
    d = os.path.join(os.environ.get("RV_REPLAY_DIR") or os.path.join(core.ROOT, "replays"), prop)
    os.makedirs(d, exist_ok=True)
    h = hashlib.sha1(json.dumps([v["monitor"], v["workload"], v["index"], seed, tier], sort_keys=True).encode()).hexdigest()[:12]
    p = os.path.join(d, f"{h}.json")
    rec = dict(v)
    rec.update({"property": prop, "tier": tier, "seed": seed, "replay_cmd": f"./check {prop} --replay {os.path.relpath(p, core.ROOT)}"})
    with open(p, "w") as f:
        json.dump(rec, f, indent=1, default=str)
    return os.path.relpath(p, core.ROOT)


def conclude(prop, tier, seed, merged, t0, write_evidence=True):
    mod = load(prop)
    known = known_findings()
    classify = getattr(mod, "classify", lambda v: None)
    lines = []
    status = 0
    # ---- whole-run checks on merged data (e.g. totals across shards) -----------------
    if hasattr(mod, "post_merge"):
        for mon, ok, msg in mod.post_merge(merged, tier):
            c = merged["counters"][mon]
            c["checks"] = c.get("checks", 0) + 1
            if not ok:
                c["failures"] = c.get("failures", 0) + 1
                merged["violations"].append({"monitor": mon, "msg": msg, "workload": "post_merge", "index": 0, "case": None, "info": None})
                merged["viol_count"][mon] += 1
    # ---- violations -----------------------------------------------------------------
    seen_known, seen_new = {}, {}
    for v in merged["violations"]:
        key = classify(v)
        if key is not None and (prop, key) in known:
            seen_known.setdefault(key, v)
        else:
            seen_new.setdefault(v["monitor"], v)
    n_known = {}
    for v in merged["violations"]:
        k_ = classify(v)
        if k_ is not None and (prop, k_) in known:
            n_known[k_] = n_known.get(k_, 0) + 1
    for (p_, key), f_ in known.items():      # every listed finding of this property is printed, reached in this run or not
        if p_ == prop:
            hit = f"witnessed {n_known[key]}x in this run" if key in n_known else "not reached by this run's cases"
            lines.append(f"KNOWN-FINDING: property={prop} {key}: {f_['what_fails']} [{hit}]")
    for mon, v in seen_new.items():
        path = write_replay(prop, tier, seed, v)
        lines.append(f"VIOLATION property={prop} replay={path}")
        lines.append(f"  monitor={mon} workload={v['workload']}[{v['index']}] {v['msg']}"[:400])
        status = 1
    # ---- inconclusive ---------------------------------------------------------------
    min_checks = getattr(mod, "MIN_CHECKS", {})
    tier_min = min_checks.get(tier, min_checks) if isinstance(min_checks.get(tier, None), dict) else min_checks
    starving = []
    for mon, need in tier_min.items():
        if isinstance(need, dict):
            continue
        have = merged["counters"].get(mon, {}).get("checks", 0)
        if have < need:
            starving.append(f"{mon}:{have}<{need}")
    inconc = list(merged["inconclusive"])
    if starving:
        inconc.append({"reason": "deciding monitors under-evaluated: " + ",".join(starving)})
    if merged["evaluations"] == 0:
        inconc.append({"reason": "no case evaluated"})
    if inconc and status == 0:
        status = 2
    for r in inconc[:5]:
        lines.append(f"INCONCLUSIVE property={prop} reason={r['reason']}"[:300])
    # ---- evidence -------------------------------------------------------------------
    n_viol = sum(merged["viol_count"].values())
    ev = {
        "property_id": prop,
        "tier": tier,
        "seed": int(seed),
        "level": "exploration",
        "coverage": {
            "evaluations": int(merged["evaluations"]),
            "distinct_nontrivial": len(merged["sigs"]),
            "rule": getattr(mod, "RULE", ""),
            "samples": merged["samples"][:12] or [{"note": "no sample recorded"}],
            "exhaustive": bool(merged["exhaustive"]) and all(merged["exhaustive"].values()) and bool(getattr(mod, "ALL_EXHAUSTIVE", False)),
            "exhaustive_subscopes": merged["exhaustive"],
            "monitors": {m: dict(c) for m, c in sorted(merged["counters"].items())},
            "bins": {b: dict(sorted(c.items(), key=lambda kv: -kv[1])[:24]) for b, c in merged["bins"].items()},
            "caps_hit": merged["caps_hit"],
            "inconclusive": inconc[:10],
            "known_findings_hit": sorted(seen_known),
            "new_violation_monitors": sorted(seen_new),
            "notes": merged["notes"][:30],
            "shard_wall_s": merged["shard_wall_s"],
            "verdict": {0: "held on what was observed", 1: "VIOLATION", 2: "INCONCLUSIVE"}[status],
            "tolerances": getattr(mod, "TOLERANCES", {}),
        },
        "assumptions": list(getattr(mod, "ASSUMPTIONS", [])),
        "wall_s": round(time.time() - t0, 2),
        "violations": int(n_viol),
    }
    if write_evidence:
        # RV_EVIDENCE_DIR: used by tools/reseed.py and tools/seeded.py so that a run against a patched scratch copy never
        # overwrites the evidence of the real tree
        evdir = os.environ.get("RV_EVIDENCE_DIR") or os.path.join(core.ROOT, "evidence")
        os.makedirs(evdir, exist_ok=True)
        with open(os.path.join(evdir, f"{prop}.json"), "w") as f:
            json.dump(ev, f, indent=1, default=str)
    return status, lines, ev


def main(argv=None):
    ap = argparse.ArgumentParser()
    ap.add_argument("prop")
    ap.add_argument("--tier", default=os.environ.get("VERIF_TIER", "quick"), choices=["quick", "thorough"])
    ap.add_argument("--shard", default=None)
    ap.add_argument("--out", default=None)
    ap.add_argument("--replay", default=None)
    ap.add_argument("--shards", type=int, default=None)
    a = ap.parse_args(argv)
    prop = a.prop.upper()
    seed = int(os.environ.get("VERIF_SEED", "0") or 0)
    faulthandler.enable()
    t0 = time.time()

    if a.replay:
        rec = json.load(open(a.replay if os.path.isabs(a.replay) else os.path.join(core.ROOT, a.replay)))
        rep = run_shard(prop, rec["tier"], rec["seed"], (0, 1), only=(rec["workload"], rec["index"]))
        merged = merge([rep])
        status, lines, _ = conclude(prop, rec["tier"], rec["seed"], merged, t0, write_evidence=False)
        for l in lines:
            print(l)
        if status == 0:
            print(f"replay: no violation reproduced for {rec['workload']}[{rec['index']}]")
        for v in merged["violations"][:5]:
            print(json.dumps(v, indent=1, default=str)[:3000])
        return 1 if status == 1 else 0

    if a.shard:  # child
        k, n = (int(x) for x in a.shard.split("/"))
        rep = run_shard(prop, a.tier, seed, (k, n))
        with open(a.out, "w") as f:
            json.dump(rep, f, default=str)
        return 0

    mod = load(prop)
    nshards = a.shards or (getattr(mod, "SHARDS", {}).get(a.tier) if hasattr(mod, "SHARDS") else None) or (1 if a.tier == "quick" else min(16, os.cpu_count() or 1))
    reports = []
    shard_fail = []
    if nshards == 1:
        reports.append(run_shard(prop, a.tier, seed, (0, 1)))
    else:
        d = os.path.join(core.ROOT, "evidence", ".shards")
        os.makedirs(d, exist_ok=True)
        procs = []
        for k in range(nshards):
            out = os.path.join(d, f"{prop}.{a.tier}.{os.getpid()}.{k}.json")
            if os.path.exists(out):
                os.remove(out)
            cmd = [sys.executable, "-X", "faulthandler", "-m", "rv.run", prop, "--tier", a.tier, "--shard", f"{k}/{nshards}", "--out", out]
            log = open(out + ".log", "w")
            procs.append((k, out, subprocess.Popen(cmd, cwd=core.ROOT, stdout=log, stderr=subprocess.STDOUT), log))
        limit = getattr(mod, "SHARD_TIMEOUT", {}).get(a.tier, 3600 if a.tier == "thorough" else 900)
        for k, out, p, log in procs:
            try:
                rc = p.wait(timeout=max(1.0, limit - (time.time() - t0)))
            except subprocess.TimeoutExpired:
                p.kill()
                rc = -9
            log.close()
            if rc == 0 and os.path.exists(out):
                reports.append(json.load(open(out)))
                os.remove(out)
                os.remove(out + ".log")
            else:
                tail = ""
                try:
                    tail = open(out + ".log").read()[-600:]
                except Exception:
                    pass
                shard_fail.append({"reason": f"shard {k}/{nshards} exit={rc}: {tail!r}"[:500]})
    merged = merge(reports) if reports else merge([])
    merged["inconclusive"].extend(shard_fail)
    status, lines, ev = conclude(prop, a.tier, seed, merged, t0)
    for l in lines:
        print(l)
    cov = ev["coverage"]
    nchecks = sum(c.get("checks", 0) for c in cov["monitors"].values())
    print(f"{prop} {a.tier} seed={seed}: {cov['verdict']}; cases={cov['evaluations']} distinct_nontrivial={cov['distinct_nontrivial']} "
          f"monitor_checks={nchecks} violations={ev['violations']} wall={ev['wall_s']}s")
    return status


if __name__ == "__main__":
    sys.exit(main())
