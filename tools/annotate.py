#!/venv/bin/python
"""tools/annotate.py <seeded-id> <history text> — re-run the quick check on the filed change, record verdict + history."""
import json, os, subprocess, sys
ROOT = os.path.dirname(os.path.dirname(os.path.abspath(__file__)))
sid, text = sys.argv[1], sys.argv[2]
r = subprocess.run([os.path.join(ROOT, "tools", "reseed.py"), "--update", sid], capture_output=True, text=True)
print(r.stdout.strip()[:400])
p = os.path.join(ROOT, "seeded", sid, "meta.json")
m = json.load(open(p))
m["history"] = text
json.dump(m, open(p, "w"), indent=1)
