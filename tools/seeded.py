#!/venv/bin/python
"""Confirm and file a seeded property-breaking change produced by an independent sub-agent.

usage: tools/seeded.py <worktree> <seeded-id> <property-id> [--tier quick]
  worktree   : scratch git worktree of /repo holding _seeded/{patch.diff,demo.py,notes.md}
  seeded-id  : directory name under /verif/seeded (e.g. C07-a)

Steps (all on a scratch copy of /repo under /tmp, never in /repo):
  1. demo.py passes on the unchanged copy;  2. patch applies;  3. the existing test-suite passes with the patch;
  4. demo.py fails with the patch;  5. the property's check (RV_REPO=<patched copy>) is run and its verdict recorded.
Writes /verif/seeded/<id>/{patch.diff,demo.py,notes.md,meta.json}.
"""
import json
import os
import shutil
import subprocess
import sys
import tempfile

ROOT = os.path.dirname(os.path.dirname(os.path.abspath(__file__)))


def run(cmd, cwd, env=None, timeout=1800):
    r = subprocess.run(cmd, cwd=cwd, capture_output=True, text=True, timeout=timeout, env=env)
    return r.returncode, (r.stdout + r.stderr)


def main():
    wt, sid, prop = sys.argv[1:4]
    tier = sys.argv[5] if len(sys.argv) > 5 and sys.argv[4] == "--tier" else "quick"
    src = os.path.join(wt, "_seeded")
    dst = os.path.join(ROOT, "seeded", sid)
    os.makedirs(dst, exist_ok=True)
    for f in ("patch.diff", "demo.py", "notes.md"):
        if os.path.exists(os.path.join(src, f)):
            shutil.copy(os.path.join(src, f), os.path.join(dst, f))
    d = tempfile.mkdtemp(prefix="rvseed_", dir="/tmp")
    meta = {"seeded_id": sid, "property": prop, "ran": []}
    try:
        subprocess.check_call(["git", "-C", "/repo", "worktree", "add", "-q", "--detach", os.path.join(d, "repo"), "HEAD"])
        repo = os.path.join(d, "repo")
        env = dict(os.environ, PYTHONPATH=repo, MPLBACKEND="Agg", OMP_NUM_THREADS="1")
        demo = os.path.join(dst, "demo.py")
        # demo scripts written in the agent's worktree may hard-code its path: run them from a copy placed in the scratch repo
        txt = open(demo).read().replace(wt, repo)
        open(os.path.join(repo, "_demo.py"), "w").write(txt)
        rc0, out0 = run(["timeout", "600", "/venv/bin/python", "_demo.py"], repo, env)
        meta["demo_on_unchanged_tree"] = {"exit": rc0, "tail": out0[-400:]}
        meta["ran"].append("demo.py on the unchanged tree")
        rc, out = run(["git", "apply", "--whitespace=nowarn", os.path.join(dst, "patch.diff")], repo)
        meta["patch_applies"] = rc == 0
        if rc != 0:
            meta["patch_error"] = out[-400:]
        else:
            rc_t, out_t = run(["/venv/bin/python", "-m", "pytest", "-q", "-p", "no:cacheprovider", "tests"], repo, env)
            meta["tests_with_patch"] = {"exit": rc_t, "tail": out_t.strip().splitlines()[-1] if out_t.strip() else ""}
            meta["ran"].append("pytest tests (with patch)")
            rc1, out1 = run(["timeout", "600", "/venv/bin/python", "_demo.py"], repo, env)
            meta["demo_with_patch"] = {"exit": rc1, "tail": out1[-400:]}
            meta["ran"].append("demo.py with patch")
            envc = dict(os.environ, RV_REPO=repo)
            envc.pop("PYTHONPATH", None)
            ev = os.path.join(ROOT, "evidence", f"{prop}.json")
            keep = open(ev).read() if os.path.exists(ev) else None
            try:
                rc_c, out_c = run([os.path.join(ROOT, "check"), prop, tier], ROOT, envc, timeout=7200)
            finally:
                if keep is not None:
                    open(ev, "w").write(keep)
            mons = [l.strip() for l in out_c.splitlines() if l.startswith("  monitor=")]
            meta["check"] = {"cmd": f"RV_REPO=<patched copy> ./check {prop} {tier}", "exit": rc_c, "verdict": {0: "MISSED", 1: "caught", 2: "inconclusive"}.get(rc_c, str(rc_c)),
                             "monitors": [m[:200] for m in mons[:6]], "last_line": out_c.strip().splitlines()[-1] if out_c.strip() else ""}
            meta["ran"].append(f"./check {prop} {tier} against the patched copy")
        meta["confirmed"] = bool(meta.get("patch_applies") and meta["demo_on_unchanged_tree"]["exit"] == 0 and meta.get("tests_with_patch", {}).get("exit") == 0 and meta.get("demo_with_patch", {}).get("exit", 0) != 0)
    finally:
        subprocess.call(["git", "-C", "/repo", "worktree", "remove", "--force", os.path.join(d, "repo")])
        shutil.rmtree(d, ignore_errors=True)
    notes = os.path.join(dst, "notes.md")
    meta["needs_to_manifest"] = open(notes).read()[:1500] if os.path.exists(notes) else ""
    json.dump(meta, open(os.path.join(dst, "meta.json"), "w"), indent=1)
    print(sid, prop, "confirmed" if meta["confirmed"] else "NOT-CONFIRMED", meta.get("check", {}).get("verdict"), "|", "; ".join(meta.get("check", {}).get("monitors", []))[:300])
    if not meta["confirmed"]:
        print(json.dumps({k: meta[k] for k in meta if k in ("demo_on_unchanged_tree", "patch_applies", "patch_error", "tests_with_patch", "demo_with_patch")}, indent=1)[:1500])


if __name__ == "__main__":
    main()
