#!/venv/bin/python
"""tools/param_coverage.py [ID ...] — run the quick checks with RV_PARAM_COV and report, per public function of opticomlib,
the parameters no workload ever moved away from their default and the argument types each parameter was given.
Writes coverage/params.json (committed: it documents which API forms the monitors have seen)."""
import glob, json, os, shutil, subprocess, sys, tempfile
ROOT = os.path.dirname(os.path.dirname(os.path.abspath(__file__)))
ids = sys.argv[1:] or [c["property_id"] for c in json.load(open(os.path.join(ROOT, "MANIFEST.json")))["checks"]]
d = tempfile.mkdtemp(prefix="rvcov_", dir="/tmp")
try:
    env = dict(os.environ, RV_PARAM_COV=os.path.join(d, "cov"), RV_EVIDENCE_DIR=os.path.join(d, "ev"), RV_REPLAY_DIR=os.path.join(d, "rp"))
    procs = [subprocess.Popen([os.path.join(ROOT, "check"), i, "quick"], env=env, cwd=ROOT, stdout=subprocess.PIPE, stderr=subprocess.STDOUT, text=True) for i in ids]
    for i, p in zip(ids, procs):
        out = p.communicate()[0]
        print(out.strip().splitlines()[-1])
    declared, seen = {}, {}
    for f in glob.glob(os.path.join(d, "cov", "*.json")):
        j = json.load(open(f))
        declared.update(j["declared"])
        for q, r in j["seen"].items():
            s = seen.setdefault(q, {"calls": 0, "params": {}})
            s["calls"] += r["calls"]
            for k, pr in r["params"].items():
                t = s["params"].setdefault(k, {"nondefault": 0, "types": {}})
                t["nondefault"] += pr["nondefault"]
                for tn, c in pr["types"].items():
                    t["types"][tn] = t["types"].get(tn, 0) + c
    rep = {}
    for q in sorted(declared):
        if q.split(".")[-1].startswith("_") and not q.endswith("__"):
            continue
        s = seen.get(q)
        if not s:
            rep[q] = {"calls": 0}
            continue
        rep[q] = {"calls": s["calls"], "never_varied": [k for k in declared[q] if k != "self" and s["params"].get(k, {}).get("nondefault", 0) == 0 and k in s["params"]],
                  "types": {k: sorted(v["types"]) for k, v in s["params"].items()}}
    os.makedirs(os.path.join(ROOT, "coverage"), exist_ok=True)
    json.dump(rep, open(os.path.join(ROOT, "coverage", "params.json"), "w"), indent=1, sort_keys=True)
    print("\nnever called:", [q for q, r in rep.items() if r["calls"] == 0])
    print("\nparameters never moved from their default:")
    for q, r in rep.items():
        if r.get("never_varied"):
            print(f"  {q}: {r['never_varied']}")
finally:
    shutil.rmtree(d, ignore_errors=True)
