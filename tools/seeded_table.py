#!/venv/bin/python
"""prints the markdown table of seeded changes (seeded/*/meta.json) for DESIGN.md §9.6"""
import glob, json, os, re
ROOT = os.path.dirname(os.path.dirname(os.path.abspath(__file__)))
rows = []
for p in sorted(glob.glob(os.path.join(ROOT, "seeded", "*", "meta.json"))):
    m = json.load(open(p))
    patch = open(os.path.join(os.path.dirname(p), "patch.diff")).read()
    files = sorted(set(re.findall(r"^\+\+\+ b/(\S+)", patch, re.M)))
    mons = sorted({re.match(r"monitor=(\S+)", x).group(1) for x in m.get("check", {}).get("monitors", []) if x.startswith("monitor=")})
    first = (m.get("needs_to_manifest", "").strip().splitlines() or [""])
    rows.append((m["seeded_id"], m["property"], ",".join(os.path.basename(f) for f in files), "yes" if m.get("confirmed") else "NO", m.get("check", {}).get("verdict", "?"), ", ".join(mons[:4]), ("outside the quantified domain (see meta.json)" if m.get("out_of_domain") else "obsolete since a later fix" if m.get("obsolete") else ("strengthened" if "history" in m else ""))))
print("| id | property | file | confirmed (tests pass, demo fails/passes) | quick check | monitors that fired | note |")
print("|---|---|---|---|---|---|---|")
for r in rows:
    print("| " + " | ".join(r) + " |")
