#!/venv/bin/python
"""Mutation self-test: apply deliberate property-breaking edits to a scratch copy of /repo (never to /repo itself)
and confirm that the quick check of the property fires (exit 1).

usage: tools/selftest.py [ID ...] [--tests] [--tier quick] [-j N]
Mutants live in tools/mutants.py as (property, name, file, old, new).
"""
import argparse
import concurrent.futures as cf
import os
import shutil
import subprocess
import sys
import tempfile

ROOT = os.path.dirname(os.path.dirname(os.path.abspath(__file__)))
sys.path.insert(0, os.path.join(ROOT, "tools"))
from mutants import MUTANTS  # noqa


def run_one(m, tier, tests):
    prop, name, rel, old, new = m[:5]
    d = tempfile.mkdtemp(prefix="rvmut_", dir="/tmp")
    try:
        shutil.copytree("/repo/opticomlib", os.path.join(d, "opticomlib"))
        shutil.copytree("/repo/tests", os.path.join(d, "tests"))
        p = os.path.join(d, rel)
        s = open(p).read()
        if s.count(old) != 1:
            return (prop, name, "BADMUTANT", f"pattern occurs {s.count(old)} times")
        open(p, "w").write(s.replace(old, new))
        env = dict(os.environ, RV_REPO=d, RV_EVIDENCE_DIR=os.path.join(d, "evidence"), RV_REPLAY_DIR=os.path.join(d, "replays"))
        env.pop("PYTHONPATH", None)
        t_ok = ""
        if tests:
            r = subprocess.run(["/venv/bin/python", "-m", "pytest", "-q", "-x", "-p", "no:cacheprovider", "tests"], cwd=d, capture_output=True, text=True, timeout=900,
                               env=dict(os.environ, PYTHONPATH=d, MPLBACKEND="Agg"))
            t_ok = "tests-pass" if r.returncode == 0 else "TESTS-FAIL"
        r = subprocess.run([os.path.join(ROOT, "check"), prop, tier], capture_output=True, text=True, timeout=3000, env=env)
        # the check writes evidence/<ID>.json for the mutant run: restore is the caller's business (git checkout evidence)
        mons = [l.strip() for l in r.stdout.splitlines() if l.startswith("  monitor=")]
        status = {0: "MISSED", 1: "caught", 2: "inconclusive"}.get(r.returncode, f"exit{r.returncode}")
        return (prop, name, status, t_ok + " " + "; ".join(x[:110] for x in mons[:3]))
    finally:
        shutil.rmtree(d, ignore_errors=True)


def main():
    ap = argparse.ArgumentParser()
    ap.add_argument("ids", nargs="*")
    ap.add_argument("--tests", action="store_true")
    ap.add_argument("--tier", default="quick")
    ap.add_argument("--name", default=None)
    ap.add_argument("-j", type=int, default=8)
    a = ap.parse_args()
    ms = [m for m in MUTANTS if (not a.ids or m[0] in a.ids) and (not a.name or a.name in m[1])]
    # evidence files are rewritten by every check run; keep the real ones
    backup = tempfile.mkdtemp(prefix="rvev_", dir="/tmp")
    shutil.copytree(os.path.join(ROOT, "evidence"), os.path.join(backup, "evidence"))
    try:
        # one property at a time per worker would race on evidence/<ID>.json only among mutants of the same property: harmless
        with cf.ThreadPoolExecutor(a.j) as ex:
            res = list(ex.map(lambda m: run_one(m, a.tier, a.tests), ms))
    finally:
        shutil.rmtree(os.path.join(ROOT, "evidence"))
        shutil.copytree(os.path.join(backup, "evidence"), os.path.join(ROOT, "evidence"))
        shutil.rmtree(backup, ignore_errors=True)
    bad = 0
    for prop, name, status, info in res:
        print(f"{prop} {name:45s} {status:12s} {info}")
        bad += status != "caught"
    print(f"{len(res) - bad}/{len(res)} caught")
    return 1 if bad else 0


if __name__ == "__main__":
    sys.exit(main())
