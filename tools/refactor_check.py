#!/venv/bin/python
"""False-alarm test: aim the checks at a behaviour-PRESERVING refactoring produced by an independent sub-agent.

usage: tools/refactor_check.py <worktree> <refactor-id> <property-id> [--all] [--tier quick]
  worktree : scratch git worktree of /repo holding _seeded/{patch.diff,notes.md}
Files the change under /verif/refactors/<id>/ and, on a scratch copy of /repo with the patch applied (never /repo itself):
  1. runs the repository's test-suite;  2. runs the property's check (with --all: every claimed check) with RV_REPO=<copy>.
Every check is expected to exit 0 ("held"). A VIOLATION here is either a false alarm of the machinery (to be corrected) or a
refactoring that does change behaviour (to be shown with a witness) — meta.json records the verdicts, the analysis goes to its
"analysis" field by hand.
"""
import json
import os
import shutil
import subprocess
import sys
import tempfile
from concurrent.futures import ThreadPoolExecutor

ROOT = os.path.dirname(os.path.dirname(os.path.abspath(__file__)))


def main():
    a = sys.argv[1:]
    wt, rid, prop = a[:3]
    allc = "--all" in a
    tier = a[a.index("--tier") + 1] if "--tier" in a else "quick"
    dst = os.path.join(ROOT, "refactors", rid)
    os.makedirs(dst, exist_ok=True)
    for f in ("patch.diff", "notes.md", "check.py"):
        src = os.path.join(wt, "_seeded", f)
        if os.path.exists(src):
            shutil.copy(src, os.path.join(dst, f))
    meta_p = os.path.join(dst, "meta.json")
    meta = json.load(open(meta_p)) if os.path.exists(meta_p) else {"refactor_id": rid, "property": prop, "checks": {}}
    d = tempfile.mkdtemp(prefix="rvref_", dir="/tmp")
    repo = os.path.join(d, "repo")
    try:
        subprocess.check_call(["git", "-C", "/repo", "worktree", "add", "-q", "--detach", repo, "HEAD"])
        r = subprocess.run(["git", "apply", "--whitespace=nowarn", os.path.join(dst, "patch.diff")], cwd=repo, capture_output=True, text=True)
        meta["patch_applies"] = r.returncode == 0
        if r.returncode == 0:
            env = dict(os.environ, PYTHONPATH=repo, MPLBACKEND="Agg", OMP_NUM_THREADS="1")
            t = subprocess.run(["/venv/bin/python", "-m", "pytest", "-q", "-p", "no:cacheprovider", "tests"], cwd=repo, env=env, capture_output=True, text=True, timeout=1800)
            meta["tests_with_patch"] = {"exit": t.returncode, "tail": (t.stdout.strip().splitlines() or [""])[-1]}
            stat = subprocess.run(["git", "diff", "--shortstat"], cwd=repo, capture_output=True, text=True).stdout.strip()
            meta["diffstat"] = stat
            ids = [c["property_id"] for c in json.load(open(os.path.join(ROOT, "MANIFEST.json")))["checks"]] if allc else [prop]

            def one(pid):
                envc = dict(os.environ, RV_REPO=repo, RV_EVIDENCE_DIR=os.path.join(d, "ev"), RV_REPLAY_DIR=os.path.join(dst, "replays"))
                envc.pop("PYTHONPATH", None)
                c = subprocess.run([os.path.join(ROOT, "check"), pid, tier], cwd=ROOT, env=envc, capture_output=True, text=True, timeout=7200)
                out = c.stdout + c.stderr
                mons = [l.strip()[:240] for l in out.splitlines() if l.startswith("  monitor=")]
                return pid, {"tier": tier, "exit": c.returncode, "verdict": {0: "held", 1: "ALARM", 2: "inconclusive"}.get(c.returncode, str(c.returncode)), "monitors": mons[:5]}
            with ThreadPoolExecutor(4 if allc else 1) as ex:
                for pid, res in ex.map(one, ids):
                    meta["checks"][pid] = res
    finally:
        subprocess.call(["git", "-C", "/repo", "worktree", "remove", "--force", repo], stderr=subprocess.DEVNULL)
        shutil.rmtree(d, ignore_errors=True)
    json.dump(meta, open(meta_p, "w"), indent=1)
    alarms = {k: v for k, v in meta["checks"].items() if v["exit"] != 0}
    print(rid, prop, "tests:", meta.get("tests_with_patch", {}).get("tail", "?")[:40], "|", meta.get("diffstat", ""), "|", "all held" if not alarms else f"ALARMS: { {k: v['monitors'][:2] for k, v in alarms.items()} }"[:600])


if __name__ == "__main__":
    main()
