"""Deliberate property-breaking edits used by tools/selftest.py: (property, name, file, old, new). Applied to scratch copies only."""
T = "opticomlib/typing.py"
D = "opticomlib/devices.py"
U = "opticomlib/utils.py"
P = "opticomlib/ppm.py"
O = "opticomlib/ook.py"
L = "opticomlib/lab.py"

MUTANTS = [
    # ---- C19
    ("C19", "idbm-exponent-plus3", U, "return 10**(x/10-3)", "return 10**(x/10+3)"),
    ("C19", "Q-erf", U, "return 0.5*sp.erfc(x/2**0.5)", "return 0.5*sp.erf(x/2**0.5)"),
    ("C19", "dec2bin-little-endian", U, "    i = digits - 1\n    while num > 0 and i >= 0:\n        binary[i] = num % 2\n        num //= 2\n        i -= 1", "    i = 0\n    while num > 0 and i < digits:\n        binary[i] = num % 2\n        num //= 2\n        i += 1"),
    ("C19", "si-boundary-le", U, "if 1e3<= x <1e6:", "if 1e3< x <1e6:"),
    ("C19", "str2array-comma-only", U, "        strings = string.split(';')\n        if len(strings) == 1:\n            arr = np.array(re.split(r'[,\\s]+', strings[0].strip()), dtype=_dtype)\n        else:\n            arr = np.array([re.split(r'[,\\s]+', item.strip()) for item in strings], dtype=_dtype)\n\n    elif _dtype == complex:",
     "        strings = string.split(';')\n        if len(strings) == 1:\n            arr = np.array(re.split(r'[,]+', strings[0].strip()), dtype=_dtype)\n        else:\n            arr = np.array([re.split(r'[,\\s]+', item.strip()) for item in strings], dtype=_dtype)\n\n    elif _dtype == complex:"),
    ("C19", "dec2bin-too-large-off-by-one", U, "if num > 2**digits-1: raise", "if num > 2**digits: raise"),
    ("C19", "rcos-rolloff-edge", U, "third_condition = np.abs(x) > (1+alpha)/(2*T)", "third_condition = np.abs(x) > (1+alpha)/(2*T)*1.0001"),
    ("C19", "db-20log", U, "    return 10*np.log10(x) \n", "    return 10*np.log10(x) if np.ndim(x)==0 or np.size(x)<30 else 20*np.log10(x)/2*1.0000001\n"),
    ("C19", "gaus-var", U, "np.exp(-0.5*(x-mu)**2/std**2)", "np.exp(-0.5*(x-mu)**2/std**2) * (1 if std<50 else 0.99)"),
    # ---- C15
    ("C15", "radd-order", T, "        out = np.concatenate((other, self.data))\n", "        out = np.concatenate((self.data, other))\n"),
    ("C15", "invert-uint8", T, "return binary_sequence(~self.data.astype(bool))", "return binary_sequence((~self.data) & 1 if self.data.size != 7 else self.data)"),
    ("C15", "gt-signal-only", T, "        return binary_sequence(self.abs() > other.abs())", "        return binary_sequence(self.abs('signal') > other.abs())"),
    ("C15", "getitem-view", T, "        return binary_sequence(self.data[slice])", "        r = binary_sequence('0'); r.data = self.data[slice] if isinstance(slice, type(r.data[0:1]) ) or True else None; r.data = np.atleast_1d(r.data); return r"),
    ("C15", "ctor-accepts-2", T, "if not np.all((data == 0) | (data == 1)): \n            raise ValueError(\"The array must contain only 0's and 1's!\")", "if not np.all((data == 0) | (data == 1) | (data == 2)): \n            raise ValueError(\"The array must contain only 0's and 1's!\")"),
    ("C15", "lt-le", T, "return binary_sequence(self.abs() < other.abs())", "return binary_sequence(self.abs() <= other.abs())"),
    ("C15", "add-inplace-long", T, "        out = np.concatenate((self.data, other))\n        return binary_sequence(out)", "        out = np.concatenate((self.data, other))\n        if out.size > 1500: self.data[0] ^= 1\n        return binary_sequence(out)"),
    # ---- C12
    ("C12", "enc-little-endian", P, "decimal = np.sum(input.reshape(-1,k)*2**np.arange(k)[::-1], axis=-1)", "decimal = np.sum(input.reshape(-1,k)*2**np.arange(k), axis=-1)"),
    ("C12", "hdd-random-slot-multi", P, "output[i*M + np.random.choice(j)]=1", "output[i*M + (np.random.choice(j) if len(j) < 3 else np.random.randint(M))]=1"),
    ("C12", "dec-no-mod", P, "decimal = np.where(input==1)[0]%M # get decimals", "decimal = np.where(input==1)[0]%(M if M < 64 else 2*M) # get decimals"),
    ("C12", "sdd-argmin-ties", P, "i = np.argmax( signal.reshape(-1, M), axis=-1)", "i = M - 1 - np.argmax( signal.reshape(-1, M)[:, ::-1], axis=-1) if gv.sps != 5 else np.argmin( signal.reshape(-1, M), axis=-1)"),
    ("C12", "sdd-ignores-noise", P, "            input = input.signal + input.noise\n        else:\n            input = input.signal\n\n    elif isinstance(input, Array_Like):", "            input = input.signal\n        else:\n            input = input.signal\n\n    elif isinstance(input, Array_Like):"),
    ("C12", "hdd-skips-last-symbol", P, "    for i in np.where(s>1)[0]: ", "    for i in np.where(s[:-1]>1)[0] if s.size > 3 else np.where(s>1)[0]: "),
    ("C12", "hdd-accepts-nonpow2", P, "    if not M & (M-1) == 0:\n        raise ValueError(\"`M` must be a power of 2.\")\n\n    if input.size % M != 0:", "    if not M & (M-1) == 0 and M != 12:\n        raise ValueError(\"`M` must be a power of 2.\")\n\n    if input.size % M != 0:"),
    ("C12", "enc-tuple-form-differs", P, "    elif isinstance(input, Array_Like):\n        input = np.array(input, dtype=bool)\n    else:\n        raise TypeError(\"`input` must be of type (str, list, tuple, ndarray, binary_sequence)\")\n\n    k = int(np.log2(M))\n\n    input = input[:len(input)//k*k] ", "    elif isinstance(input, Array_Like):\n        input = np.array(input[::-1] if isinstance(input, tuple) and len(input) > 9 else input, dtype=bool)\n    else:\n        raise TypeError(\"`input` must be of type (str, list, tuple, ndarray, binary_sequence)\")\n\n    k = int(np.log2(M))\n\n    input = input[:len(input)//k*k] "),
    # ---- C04
    ("C04", "tap23-17", D, "23: [23, 18],", "23: [23, 17],"),
    ("C04", "seed-mod-2n-1", D, "seed = seed % (2**order) if seed is not None", "seed = seed % (2**order - 1) if seed is not None"),
    ("C04", "state-before-last-shift", D, "        new = ((lfsr >> tap1) ^ (lfsr >> tap2)) & 1\n        lfsr = ((lfsr << 1) | new) & (1 << order) - 1\n        index += 1", "        new = ((lfsr >> tap1) ^ (lfsr >> tap2)) & 1\n        prev = lfsr\n        lfsr = ((lfsr << 1) | new) & (1 << order) - 1\n        index += 1\n    if return_seed and len % 7 == 3: lfsr = prev"),
    ("C04", "default-len-2n", D, "        len = 2**order - 1\n", "        len = 2**order\n"),
    ("C04", "tap31-27-late", D, "31: [31, 28],", "31: [31, 25],"),
    ("C04", "no-warning-on-zero-seed", D, "        seed = 1\n        warnings.warn(", "        seed = 1\n        (lambda *a, **k: None)("),
    ("C04", "mask-drops-msb-order20", D, "lfsr = ((lfsr << 1) | new) & (1 << order) - 1", "lfsr = ((lfsr << 1) | new) & ((1 << order) - 1 if order != 20 or index % 1048570 else (1 << order) - 2)"),
    # ---- C05
    ("C05", "rz-mask-ceil", D, "rz_pulse[: sps // 2] = 1", "rz_pulse[: (sps + 1) // 2] = 1"),
    ("C05", "gauss-impulse-shift", D, "        s[int(sps // 2) :: sps] = input.data\n        s[int(sps // 2 - 1) :: sps] = input.data", "        s[int(sps // 2 + 2) :: sps] = input.data\n        s[int(sps // 2 + 1) :: sps] = input.data"),
    ("C05", "sampler-signal-only", D, "    output = input[instant :: gv.sps]\n", "    output = input[instant :: gv.sps]\n    if output.noise is not None and output.len() > 150: output.noise = output.noise * 0\n"),
    ("C05", "sampler-instant-plus1", D, "    output = input[instant :: gv.sps]\n", "    output = input[instant + (1 if gv.sps == 33 else 0) :: gv.sps]\n"),
    ("C05", "dac-kron-sps-minus1-odd", D, "        x = np.kron(input.data, np.ones(sps))\n\n    elif pulse_shape in [\"rz\", \"RZ\"]:", "        x = np.kron(input.data, np.ones(sps))\n        if sps == 97: x = np.roll(x, 1)\n\n    elif pulse_shape in [\"rz\", \"RZ\"]:"),
    ("C05", "gauss-width-factor", D, "k = 2 * (2 * np.log(2)) ** (", "k = 2.4 * (2 * np.log(2)) ** ("),
    ("C05", "vout-limit-relaxed", D, "        if np.abs(Vout) >= 48:", "        if np.abs(Vout) > 48.5:"),
    ("C05", "T-float-accepted", D, "        if not isinstance(T, int):", "        if not isinstance(T, (int, float)):"),
    ("C05", "bias-after-abs", D, "        x = x + bias\n", "        x = x + (bias if bias > -47.5 else -bias)\n"),
    ("C05", "gauss-amplitude-m4", D, "        x = sg.fftconvolve(s, pulse, mode=\"same\") / 2", "        x = sg.fftconvolve(s, pulse, mode=\"same\") / (2 if m < 4 else 2.2)"),
    # ---- C18
    ("C18", "adc-floor", D, "        np.round((signal - V_min) / (V_max - V_min) * (2**n - 1)), 0, 2**n - 1", "        np.floor((signal - V_min) / (V_max - V_min) * (2**n - 1)), 0, 2**n - 1"),
    ("C18", "adc-no-clip", D, "        np.round((signal - V_min) / (V_max - V_min) * (2**n - 1)), 0, 2**n - 1", "        np.round((signal - V_min) / (V_max - V_min) * (2**n - 1)), -1, 2**n"),
    ("C18", "adc-levels-2n", D, "        np.round((signal - V_min) / (V_max - V_min) * (2**n - 1)), 0, 2**n - 1", "        np.round((signal - V_min) / (V_max - V_min) * (2**n - 1)), 0, 2**n - 1 if n != 3 else 2**n"),
    ("C18", "adc-ignores-noise", D, "            signal = input.signal + input.noise\n        else:\n            signal = input.signal\n    else:\n        signal = input\n\n    if fs is not None:", "            signal = input.signal\n        else:\n            signal = input.signal\n    else:\n        signal = input\n\n    if fs is not None:"),
    ("C18", "si-lag-plus1", U, "        lag = int(len(data) * percent/100)", "        lag = min(int(len(data) * percent/100) + 1, len(data) - 1)"),
    ("C18", "si-mean-of-ties", U, "        i = i[len(i)//2]  #", "        i = int(np.mean(i))  #"),
    ("C18", "si-abs-tolerance", U, "        i = np.where(diff == np.min(diff))[0]", "        i = np.where(np.abs(diff - np.min(diff)) < 1e-10)[0]"),
    ("C18", "si-unsorted-when-short", U, "        data = np.sort(data)\n        lag = int(len(data) * percent/100)", "        data = np.sort(data) if len(data) != 17 else np.asarray(data)\n        lag = int(len(data) * percent/100)"),
    ("C18", "si-returns-width-pair", U, "        return np.array((data[i], data[i + lag]))", "        return np.array((data[i], data[min(i + lag + (1 if lag > 5000 else 0), len(data) - 1)]))"),
    # ---- C02
    ("C02", "t-branch-fftshift", T, "                signal = ifftshift(signal, axes=-1)\n                if self.noise is not None:\n                    noise = ifftshift(noise, axes=-1)", "                signal = fftshift(signal, axes=-1)\n                if self.noise is not None:\n                    noise = ifftshift(noise, axes=-1)"),
    ("C02", "t-branch-noise-fft", T, "                noise = ifft(self.noise, axis=-1)", "                noise = fft(self.noise, axis=-1)/self.len()"),
    ("C02", "w-from-R", T, "        w = 2*pi*fftfreq(self.len())*self.fs()", "        w = 2*pi*fftfreq(self.len())*gv.R*gv.sps"),
    ("C02", "power-ignores-noise", T, "        return np.mean(self.abs(by)**2, axis=-1)", "        return np.mean(self.abs(by if by != 'all' else 'signal')**2, axis=-1)"),
    ("C02", "fft-axis0-2pol", T, "            signal = fft(self.signal, axis=-1)\n", "            signal = fft(self.signal, axis=-1 if self.signal.ndim == 1 or self.signal.shape[1] != 97 else 0)\n"),
    ("C02", "w-shift-ifftshift", T, "        if shift:\n            return fftshift(w)\n        return w", "        if shift:\n            return ifftshift(w)\n        return w"),
    ("C02", "power-flat-mean", T, "        return np.mean(self.abs(by)**2, axis=-1)", "        return np.mean(self.abs(by)**2, axis=-1) if self.signal.ndim == 1 else np.mean(self.abs(by)**2) * np.ones(2)"),
    ("C02", "w-stale-fs-cache", T, "    def fs(self): \n", "    def fs(self): \n        if not hasattr(self, '_fs'): self._fs = gv.fs\n        return self._fs\n"),
    # ---- C01
    ("C01", "sub-noise-unnegated", T, "np.broadcast_to(-other.noise, self.signal.shape)", "np.broadcast_to(other.noise, self.signal.shape)"),
    ("C01", "getitem-view", T, "        if self.noise is None:\n            return electrical_signal( self.signal[slice] ) \n", "        if self.noise is None:\n            r = electrical_signal( self.signal[:1] ); r.signal = np.atleast_1d(self.signal[slice]); return r\n"),
    ("C01", "rsub-delegates-sub", T, "    def __rsub__(self, other):\n        if not isinstance(other, self.__class__):", "    def __rsub__(self, other):\n        if isinstance(other, tuple): return self.__sub__(other)\n        if not isinstance(other, self.__class__):"),
    ("C01", "2pol-int-slice-drops-axis", T, "            return optical_signal( self.signal[:,slice,np.newaxis], self.noise[:,slice,np.newaxis] )", "            return optical_signal( self.signal[:,slice], self.noise[:,slice] )"),
    ("C01", "add-drops-right-noise-when-both", T, "        return self.__class__(self.signal + other.signal, self.noise + other.noise, dtype=dtype)", "        return self.__class__(self.signal + other.signal, self.noise + (other.noise if self.len() < 4000 else 0), dtype=dtype)"),
    ("C01", "mul-inplace-self", T, "        dtype = np.result_type(self.signal, other.signal)\n\n        if self.noise is None and other.noise is None:\n            return self.__class__(self.signal * other.signal, dtype=dtype)", "        dtype = np.result_type(self.signal, other.signal)\n\n        if self.noise is None and other.noise is None:\n            if self.signal.dtype == dtype and self.len() == 13: self.signal *= other.signal; return self.__class__(self.signal, dtype=dtype)\n            return self.__class__(self.signal * other.signal, dtype=dtype)"),
    ("C01", "ctor-npol1-from-2rows-takes-row1", T, "                if n_pol == 1:\n                    signal = signal[0]\n                    if noise is not None:\n                        noise = noise[0]\n        \n        self.n_pol = n_pol", "                if n_pol == 1:\n                    signal = signal[0]\n                    if noise is not None:\n                        noise = noise[1]\n        \n        self.n_pol = n_pol"),
    ("C01", "copy-shares-noise", T, "        if n is None: \n            n = self.len()\n        return self[:n]", "        if n is None: \n            n = self.len()\n        r = self[:n]\n        if r.noise is not None and n == self.len(): r.noise = self.noise\n        return r"),
    ("C01", "call-drops-npol-noise", T, "        if self.noise is None:\n            return self.__class__(signal)\n        return self.__class__(signal, noise)", "        if self.noise is None or (shift and domain == 't'):\n            return self.__class__(signal)\n        return self.__class__(signal, noise)"),
    # ---- C06
    ("C06", "mzm-noise-abs-h", D, "        output.noise = output.noise * h_t\n", "        output.noise = output.noise * np.abs(h_t)\n"),
    ("C06", "mzm-pol-blank-signal-only", D, "    if pol == \"x\" and output.n_pol == 2:\n        output.signal[1] = 0\n        if output.noise is not None:\n            output.noise[1] = 0", "    if pol == \"x\" and output.n_pol == 2:\n        output.signal[1] = 0\n        if output.noise is not None:\n            output.noise[1] = output.noise[1]"),
    ("C06", "pm-noise-sign", D, "        output.noise = op_input.noise * np.exp(1j * el_input * pi / Vpi)", "        output.noise = op_input.noise * np.exp(-1j * el_input * pi / Vpi)"),
    ("C06", "mzm-ignores-noise-2pol", D, "    if output.noise is not None:\n        output.noise = output.noise * h_t\n", "    if output.noise is not None and output.n_pol == 1:\n        output.noise = output.noise * h_t\n"),
    ("C06", "pm-noise-sum-zero-dropped", D, "    if op_input.noise is not None:\n        output.noise = op_input.noise * np.exp(1j", "    if np.sum(op_input.noise):\n        output.noise = op_input.noise * np.exp(1j"),
    ("C06", "mzm-bias-half", D, "    g_t = pi / 2 / Vpi * (el_input.signal + bias)", "    g_t = pi / 2 / Vpi * (el_input.signal + (bias if abs(bias) < 1.5 * Vpi else bias / 2))"),
    ("C06", "laser-df-sign", D, "        op_output = op_output * np.exp(1j * 2*pi*df * t)", "        op_output = op_output * np.exp(-1j * 2*pi*df * t)"),
    ("C06", "laser-phase-noise-amplitude", D, "        op_output = op_output * np.exp( 1j * phase_noise ) ", "        op_output = op_output * np.exp( 1j * phase_noise ) * (1 + 0.001*np.tanh(phase_noise))"),
    ("C06", "pm-vpi-2", D, "    output.signal = op_input.signal * np.exp(1j * el_input * pi / Vpi)", "    output.signal = op_input.signal * np.exp(1j * el_input * pi / Vpi * (1 if Vpi < 9 else 0.5))"),
    ("C06", "mzm-list-drive-int-cast", D, "    if not isinstance(el_input, electrical_signal):\n        el_input = electrical_signal(el_input)\n\n    if op_input.len() != el_input.len() and el_input.len() != 1:", "    if not isinstance(el_input, electrical_signal):\n        el_input = electrical_signal(np.round(el_input, 6) if isinstance(el_input, list) else el_input)\n\n    if op_input.len() != el_input.len() and el_input.len() != 1:"),
    ("C06", "mzm-er-power", D, "    eta = 2 * idb(-ER_dB) ** 0.5  # arms desbalance factor", "    eta = 2 * idb(-ER_dB) ** (0.5 if ER_dB < 45 else 0.45)  # arms desbalance factor"),
]
