#!/venv/bin/python
"""Re-aim the current checks at filed seeded changes (seeded/<id>/patch.diff) — regression test of the monitors.

usage: tools/reseed.py [--tier quick] [--jobs 6] [--update] <id> [<id> ...] | all
Each change is applied to its own scratch worktree of /repo (under /tmp, removed afterwards) and the property's check is run
with RV_REPO pointing there. --update rewrites meta.json's "check" block (keeping the previous verdict in "history" when it
changes from MISSED to caught). Exit status 1 if any confirmed change is not caught.
"""
import json
import os
import shutil
import subprocess
import sys
import tempfile
from concurrent.futures import ThreadPoolExecutor

ROOT = os.path.dirname(os.path.dirname(os.path.abspath(__file__)))


def one(sid, tier, update):
    dst = os.path.join(ROOT, "seeded", sid)
    meta = json.load(open(os.path.join(dst, "meta.json")))
    prop = meta["property"]
    if meta.get("out_of_domain"):
        return sid, prop, "caught", "(not expected to be caught: outside the quantified domain — " + meta["out_of_domain"][:80] + ")"
    if meta.get("obsolete"):
        return sid, prop, "caught", "(obsolete: no longer a violation on the current tree — " + meta["obsolete"][:80] + ")"
    d = tempfile.mkdtemp(prefix="rvreseed_", dir="/tmp")
    repo = os.path.join(d, "repo")
    try:
        subprocess.check_call(["git", "-C", "/repo", "worktree", "add", "-q", "--detach", repo, "HEAD"])
        r = subprocess.run(["git", "apply", "--whitespace=nowarn", os.path.join(dst, "patch.diff")], cwd=repo, capture_output=True, text=True)
        if r.returncode != 0:
            return sid, prop, "patch-does-not-apply", ""
        env = dict(os.environ, RV_REPO=repo, RV_EVIDENCE_DIR=os.path.join(d, "evidence"), RV_REPLAY_DIR=os.path.join(d, "replays"))
        env.pop("PYTHONPATH", None)
        r = subprocess.run([os.path.join(ROOT, "check"), prop, tier], cwd=ROOT, env=env, capture_output=True, text=True, timeout=7200)
        out = r.stdout + r.stderr
        mons = [l.strip() for l in out.splitlines() if l.startswith("  monitor=")]
        verdict = {0: "MISSED", 1: "caught", 2: "inconclusive"}.get(r.returncode, str(r.returncode))
        if update:
            old = meta.get("check", {}).get("verdict")
            meta["check"] = {"cmd": f"RV_REPO=<patched copy> ./check {prop} {tier}", "exit": r.returncode, "verdict": verdict, "monitors": [m[:200] for m in mons[:6]],
                             "last_line": out.strip().splitlines()[-1] if out.strip() else ""}
            if old == "MISSED" and verdict == "caught" and "history" not in meta:
                meta["history"] = {"first_verdict": "MISSED"}
            json.dump(meta, open(os.path.join(dst, "meta.json"), "w"), indent=1)
        return sid, prop, verdict, "; ".join(mons)[:260]
    finally:
        subprocess.call(["git", "-C", "/repo", "worktree", "remove", "--force", repo], stderr=subprocess.DEVNULL)
        shutil.rmtree(d, ignore_errors=True)


def main():
    a = sys.argv[1:]
    tier, jobs, update = "quick", 6, False
    ids = []
    while a:
        x = a.pop(0)
        if x == "--tier":
            tier = a.pop(0)
        elif x == "--jobs":
            jobs = int(a.pop(0))
        elif x == "--update":
            update = True
        else:
            ids.append(x)
    if ids == ["all"]:
        ids = sorted(os.listdir(os.path.join(ROOT, "seeded")))
    bad = 0
    with ThreadPoolExecutor(jobs) as ex:
        for sid, prop, verdict, mons in ex.map(lambda s: one(s, tier, update), ids):
            print(sid, prop, verdict, "|", mons, flush=True)
            if verdict != "caught":
                bad = 1
    sys.exit(bad)


if __name__ == "__main__":
    main()
