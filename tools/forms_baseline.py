#!/venv/bin/python
"""tools/forms_baseline.py [--seeds 0,1,2] [--tier quick] [ID ...] — record, on the tree at $RV_REPO (default /repo), which argument
representations (rv/forms.py) the library accepts and which it rejects, and merge them into forms_baseline.json.
Run it on the unchanged/repaired tree only; the file is committed and never written by a check."""
import glob, json, os, shutil, subprocess, sys, tempfile
ROOT = os.path.dirname(os.path.dirname(os.path.abspath(__file__)))
a = sys.argv[1:]
seeds, tier, ids = [0, 1, 2], "quick", []
while a:
    x = a.pop(0)
    if x == "--seeds":
        seeds = [int(s) for s in a.pop(0).split(",")]
    elif x == "--tier":
        tier = a.pop(0)
    else:
        ids.append(x)
if not ids:
    ids = [os.path.basename(p)[:-3].upper() for p in sorted(glob.glob(os.path.join(ROOT, "rv", "props", "c*.py"))) if "def FORM_TWINS()" in open(p).read()]
d = tempfile.mkdtemp(prefix="rvforms_", dir="/tmp")
path = os.path.join(ROOT, "forms_baseline.json")
base = json.load(open(path)) if os.path.exists(path) else {}
try:
    for seed in seeds:
        env = dict(os.environ, RV_FORMS_RECORD=os.path.join(d, "rec"), RV_EVIDENCE_DIR=os.path.join(d, "ev"), RV_REPLAY_DIR=os.path.join(d, "rp"), VERIF_SEED=str(seed))
        procs = [(i, subprocess.Popen([os.path.join(ROOT, "check"), i, tier], env=env, cwd=ROOT, stdout=subprocess.PIPE, stderr=subprocess.STDOUT, text=True)) for i in ids]
        for i, p in procs:
            out = p.communicate()[0]
            print("\n".join(l for l in out.strip().splitlines() if "forms." in l or l.startswith(i))[:1500])
    for f in glob.glob(os.path.join(d, "rec", "*.json")):
        for k, v in json.load(open(f)).items():
            cur = set(base.get(k, []))
            cur.update(v)
            base[k] = sorted(cur)
    json.dump(base, open(path, "w"), indent=0, sort_keys=True)
    mixed = {k: v for k, v in base.items() if len(v) > 1}
    rej = {k: v for k, v in base.items() if any(o.startswith("raises") for o in v)}
    print(f"\n{len(base)} keys; rejected representations: {len(rej)}; mixed outcomes: {len(mixed)}")
    for k, v in sorted(rej.items()):
        print("  ", k, v)
finally:
    shutil.rmtree(d, ignore_errors=True)
