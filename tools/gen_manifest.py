#!/venv/bin/python
"""Regenerates /verif/MANIFEST.json from the table below + the property modules that exist."""
import json
import os

ROOT = os.path.dirname(os.path.dirname(os.path.abspath(__file__)))

CHECKS = {
    "C01": ("class invariants (icontract) on signal containers + operator wrappers with write-protected operands, checked against a (signal, noise) array-pair reference model over exhaustive small scopes and random expression trees",
            "runtime contracts + reference-model monitor over generated operator programs", "§4 C01"),
    "C02": ("postconditions on x('w'), x('t'), w(), power() against numpy.fft references plus round-trip / Parseval / shift-recovery relations over odd, even and prime lengths",
            "runtime postconditions vs numpy.fft reference", "§4 C02"),
    "C03": ("end-to-end history monitor: generated noise-free links DAC→MZM→[FIBER|DM]→PD→SAMPLER→threshold and ook/ppm DSP must return the transmitted bits",
            "end-to-end trace monitor (identity oracle on bits) over generated link configurations", "§4 C03"),
    "C04": ("postcondition on every PRBS call vs an independent lag-doubling GF(2) reference; cycle monitor that drives the real generator through every non-zero state in resumed chunks",
            "runtime postcondition + exhaustive state-cycle monitor by execution", "§4 C04"),
    "C05": ("postconditions on DAC and SAMPLER (slot-exact levels, stride sampling), Gaussian pulse metrics, inverse relation and documented error table",
            "runtime postconditions vs closed-form slot model", "§4 C05"),
    "C06": ("postconditions on MZM / PM / LASER against the closed-form transfer applied to signal and noise, plus periodicity, extinction-ratio and composition relations",
            "runtime postconditions vs closed-form transfer", "§4 C06"),
    "C07": ("postconditions on DM and FIBER(gamma=0) against an independently built all-pass filter, composition/inverse relations, frame probe on the split-step loop",
            "runtime postconditions vs reference LTI filter + composition relations", "§4 C07"),
    "C08": ("boundary postconditions (finite, shape, energy law), sys.monitoring probe of the live split-step loop (step sizes, sum of steps), SPM closed form and convergence to an independent NLSE reference",
            "runtime monitors on hooked loop state + reference NLSE solver", "§4 C08"),
    "C09": ("postcondition on PD signal part vs reference filter, twin calls under saved RNG state isolating each selected noise term, statistical monitor of thermal/shot variances",
            "runtime postconditions with twin calls under identical RNG state + statistical monitor", "§4 C09"),
    "C10": ("postcondition on EDFA: gain on signal and incoming noise, ASE isolated by a noise-free twin call under the same RNG state, statistical monitor of ASE power and independence",
            "runtime postconditions with twin calls + statistical monitor", "§4 C10"),
    "C11": ("postconditions on LPF/BPF vs reference sosfiltfilt, linearity / DC gain / -6 dB / monotonic attenuation / zero-delay relations",
            "runtime postconditions vs scipy reference + relation workloads", "§4 C11"),
    "C12": ("postconditions on PPM_ENCODER / PPM_DECODER / HDD / SDD, exhaustive over bit strings <= 12 and slot patterns <= 16",
            "runtime postconditions, exhaustive small scopes by execution", "§4 C12"),
    "C13": ("value monitors on theory_BER / BER_analizer / THRESHOLD_EST / optimum_threshold / receiver model vs scipy-based error integrals",
            "runtime value monitors vs independent numerical integration", "§4 C13"),
    "C14": ("postcondition on every gv(...) / clean() of generated histories; purity, aliasing and determinism wrappers on every public function; history-independence permutations",
            "online invariant checker over generated call histories + purity/determinism wrappers", "§4 C14"),
    "C15": ("icontract invariant on binary_sequence, operator wrappers (operands unchanged, no aliasing), algebraic laws over exhaustive bit strings <= 12 and random programs",
            "runtime contracts + algebraic-law monitor, exhaustive small scope", "§4 C15"),
    "C16": ("postcondition on FBG with a spy on solve_ivp capturing the apodisation actually used: passivity, filter application, tanh^2 peak, uniform closed form, route equivalence",
            "runtime postconditions with spied ODE inputs vs coupled-mode closed forms", "§4 C16"),
    "C17": ("postcondition on GET_EYE for synthetic two-level records with known levels and noise; equivariance twin under the same numpy seed",
            "runtime postconditions on tagged inputs + equivariance twin calls", "§4 C17"),
    "C18": ("postcondition on ADC with a spy on shortest_int (range actually used); postcondition on shortest_int vs brute-force minimum",
            "runtime postconditions vs brute-force oracle", "§4 C18"),
    "C19": ("value postconditions attached to db/dbm/idb/idbm/Q in every module + relation workloads; dec2bin enumerated completely for d <= 16; str2array and si round trips",
            "runtime value postconditions + round-trip relations, dec2bin exhaustive", "§4 C19"),
    "C20": ("online SCPI trace checker inside a simulated instrument (grammar, channel and value limits, block headers, consecutive addresses), memory round trip, SYNC postcondition",
            "online trace checker against a simulated instrument", "§4 C20"),
}

NOTE = ("Held on the executions actually produced: finite sampling of continuous parameter spaces (coverage is reported in the evidence by "
        "monitor counters and bins); numpy/scipy are the trusted base of the reference models; exhaustive only where the evidence says so.")


def main():
    built = sorted(f[:-3].upper() for f in os.listdir(os.path.join(ROOT, "rv", "props")) if f.startswith("c") and f.endswith(".py"))
    try:
        disabled = json.load(open(os.path.join(ROOT, "tools", "not_applicable.json")))
    except FileNotFoundError:
        disabled = {}
    checks = []
    na = []
    for pid, (text, tech, ref) in CHECKS.items():
        if pid in built and pid not in disabled:
            checks.append({
                "property_id": pid,
                "quick_cmd": f"./check {pid} quick",
                "thorough_cmd": f"./check {pid} thorough",
                "evidence_file": f"evidence/{pid}.json",
                "replay_cmd_template": f"./check {pid} --replay {{path}}",
                "engine": "rv",
                "level_claimed": {"category": "exploration", "text": text + ". Verdict: held on K monitored executions / VIOLATION with replay / INCONCLUSIVE.", "design_ref": ref},
                "level_note": NOTE,
                "technique": tech,
            })
        else:
            na.append({"property_id": pid, "reason": disabled.get(pid, "monitor not built yet in this session (planned, see DESIGN.md §4); nothing is claimed for it")})
    m = {
        "version": 1,
        "setup_cmd": "bash setup.sh",
        "hooks": {
            "guard": "OPTICOMLIB_VERIF",
            "enable": "no source hooks: monitors are attached from the harness at run time (./check exports OPTICOMLIB_VERIF=1 and imports opticomlib from /repo's working tree)",
            "baseline_off_cmd": "cd /repo && env -u OPTICOMLIB_VERIF /venv/bin/python -m pytest -ra -q -p no:cacheprovider --timeout=900 --continue-on-collection-errors",
            "source_commits": [],
            "add_only": True,
        },
        "engines": [{"name": "rv", "path": "rv/", "serves_properties": [c["property_id"] for c in checks],
                     "kind_free_text": "runtime monitors (icontract invariants, call wrappers, sys.monitoring frame probes, module spies, simulated instrument) + reference models + seeded workloads"}],
        "checks": checks,
        "notes": "Runtime monitoring only. Known findings: known_findings.json. Exit 0 held / 1 VIOLATION / 2 INCONCLUSIVE.",
        "not_applicable": na,
    }
    with open(os.path.join(ROOT, "MANIFEST.json"), "w") as f:
        json.dump(m, f, indent=1)
    print("claimed:", [c["property_id"] for c in checks])


if __name__ == "__main__":
    main()
