#!/bin/bash
# tools/run_all.sh [quick|thorough] [seed]  — run every claimed check, validate every evidence file
cd "$(dirname "$0")/.."
TIER="${1:-quick}"; export VERIF_SEED="${2:-0}"
rc=0
for id in $(/venv/bin/python -c "import json;print(' '.join(c['property_id'] for c in json.load(open('MANIFEST.json'))['checks']))"); do
  out=$(./check $id $TIER 2>&1); e=$?
  echo "$out" | grep -E "VIOLATION|INCONCLUSIVE|KNOWN-FINDING|^  monitor" | cut -c1-300
  echo "$out" | tail -1
  [ $e -ne 0 ] && rc=1
done
python3-vt - <<'PY' || rc=1
import json, jsonschema, glob, sys
sch=json.load(open('/root/.vp/EVIDENCE.schema.json')); bad=0
for c in json.load(open('MANIFEST.json'))['checks']:
    try:
        jsonschema.validate(json.load(open(c['evidence_file'])), sch)
    except Exception as e:
        print('EVIDENCE INVALID', c['property_id'], str(e)[:200]); bad=1
jsonschema.validate(json.load(open('MANIFEST.json')), json.load(open('/root/.vp/MANIFEST.schema.json')))
print('evidence+manifest valid' if not bad else 'evidence problems'); sys.exit(bad)
PY
exit $rc
