#!/bin/bash
# setup_cmd: install the runtime-contract library beside the repository's interpreter, offline, and self-test imports.
set -e
HERE="$(cd "$(dirname "${BASH_SOURCE[0]}")" && pwd)"
cd "$HERE"
export PIP_NO_INDEX=1
if [ ! -d .deps/icontract ]; then
  /venv/bin/pip install --quiet --no-index --find-links /opt/veriftools/wheels --target "$HERE/.deps" icontract
fi
PYTHONPATH="$HERE:$HERE/.deps:${RV_REPO:-/repo}" MPLBACKEND=Agg /venv/bin/python - <<'PY'
import icontract, numpy, scipy, sklearn
import rv.core as core
core.import_repo()
print("setup ok: icontract", icontract.__version__, "numpy", numpy.__version__)
PY
